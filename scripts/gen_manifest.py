#!/usr/bin/env python3
"""Regenerates /verif/MANIFEST.json from the table below (kept next to the code so the
manifest never drifts from what is built)."""
import json, subprocess

REAL_BBS = "zksim-bbs"
REAL_CL = "zksim-cl"

CHECKS = {
 "C01": dict(engine=REAL_BBS, cat="exploration", ref="§5 C01",
   text="Seeded search over issuance sessions (both suites, varied key material/key_info/header/L/message sizes) run as Issuer and Holder nodes on their own threads under the baton scheduler, with neutral faults only (absent<->empty toggles, swap of equal messages, dup+drop, frame duplication) and issuer/holder crash-restart with reload from octets, coordinates and JSON. The ideal functionality says MustAccept for every delivered frame, so any rejection, any sign failure, or two different signatures for one statement is a violation. Exploration is the right level: the space of inputs is unbounded and is sampled, not enumerated.",
   note="Trusts the ideal-functionality oracle (content comparison after None==empty normalisation). sign/verify are pure functions on the pinned tree; what the simulator adds is the restart/reload dimension, the interleaving of sessions of both suites in one process and replayability.",
   technique="deterministic simulation: seeded sessions with neutral faults and crash-restart, ideal-functionality oracle"),
 "C02": dict(engine=REAL_BBS, cat="fault_enumeration", ref="§5 C02",
   text="Every fault of the wire/store catalogue applied to an honest Credential frame and delivered to the Holder node: all 640 single-bit flips of the signature (complete every 16 runs), every single-element list fault for small L, header faults, misroute to the other suite / blind interface / another key, stored-pk bit flips, blind-interface signatures at plain endpoints. Verdict by content: a frame whose statement equals no signed statement must be rejected. The bit-flip and single-edit spaces are finite and enumerated completely; shapes are sampled.",
   note="Acceptance of a MustReject frame by correct code has probability <= 2^-128. A verifier panic counts as rejection here and is charged to C08.",
   technique="deterministic simulation: complete wire-fault enumeration on the issuance channel, ideal-functionality oracle"),
}

NOT_APPLICABLE = []

def main():
    checks = []
    for pid in sorted(CHECKS):
        c = CHECKS[pid]
        checks.append({
            "property_id": pid,
            "quick_cmd": f"./zk check {pid} --tier quick",
            "thorough_cmd": f"./zk check {pid} --tier thorough",
            "evidence_file": f"/verif/evidence/{pid}.json",
            "replay_cmd_template": "./zk replay {path}",
            "engine": c["engine"],
            "level_claimed": {"category": c["cat"], "text": c["text"], "design_ref": c["ref"]},
            "level_note": c["note"],
            "technique": c["technique"],
        })
    claimed = set(CHECKS)
    na = [x for x in NOT_APPLICABLE if x["property_id"] not in claimed]
    allp = [json.loads(l)["id"] for l in open("/verif/properties.jsonl")]
    for p in allp:
        if p not in claimed and p not in [x["property_id"] for x in na]:
            na.append({"property_id": p, "reason": "check not built yet in this session (planned: see DESIGN.md §5); not a statement about applicability"})
    try:
        hooks = subprocess.check_output(["git", "-C", "/repo", "log", "--format=%h", "--grep=^verif:"], text=True).split()
    except Exception:
        hooks = []
    m = {
        "version": 1,
        "setup_cmd": "./zk setup",
        "hooks": {
            "guard": "--cfg zkryptium_verif",
            "enable": "rustflags = [\"--cfg\", \"zkryptium_verif\"] in /verif/sim/*/.cargo/config.toml; the engines depend on /repo by path (CL03: shadow manifest with [lib] path=/repo/src/lib.rs) and rebuild it on every check",
            "baseline_off_cmd": "cd /repo && cargo test --workspace --no-fail-fast --offline",
            "source_commits": hooks,
            "add_only": True,
        },
        "engines": [
            {"name": "zksim-bbs", "path": "sim/bbs", "serves_properties": [p for p in sorted(CHECKS) if CHECKS[p]["engine"] == REAL_BBS],
             "kind_free_text": "deterministic simulation with fault injection: protocol roles on real OS threads under a baton scheduler driven by one seeded chooser, entropy seam at getrandom(2) (LD_PRELOAD shim), wire/store fault catalogue, ideal-functionality and executable-spec oracles, choice-list minimiser and replay"},
            {"name": "zksim-cl", "path": "sim/cl", "serves_properties": [p for p in sorted(CHECKS) if CHECKS[p]["engine"] == REAL_CL],
             "kind_free_text": "same engine for the CL03 feature (built through a shadow manifest against a locally built GMP 6.3.0)"},
        ],
        "checks": checks,
        "not_applicable": na,
        "notes": "Exit codes of every command: 0 held / known findings only, 1 VIOLATION, 2 harness error. VERIF_SEED, VERIF_TIER and VERIF_BUDGET_S are honoured. Known findings: /verif/known_findings.txt.",
    }
    json.dump(m, open("/verif/MANIFEST.json", "w"), indent=1)
    print("wrote MANIFEST.json with", len(checks), "checks;", len(na), "not claimed")

main()
