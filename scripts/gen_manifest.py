#!/usr/bin/env python3
"""Regenerates /verif/MANIFEST.json from the table below (kept next to the code so the
manifest never drifts from what is built)."""
import json, subprocess

REAL_BBS = "zksim-bbs"
REAL_CL = "zksim-cl"

CHECKS = {
 "C01": dict(engine=REAL_BBS, cat="exploration", ref="§5 C01",
   text="Seeded search over issuance sessions (both suites, varied key material/key_info/header/L/message sizes) run as Issuer and Holder nodes on their own threads under the baton scheduler, with neutral faults only (absent<->empty toggles, swap of equal messages, dup+drop, frame duplication) and issuer/holder crash-restart with reload from octets, coordinates and JSON. The ideal functionality says MustAccept for every delivered frame, so any rejection, any sign failure, or two different signatures for one statement is a violation. Exploration is the right level: the space of inputs is unbounded and is sampled, not enumerated.",
   note="Trusts the ideal-functionality oracle (content comparison after None==empty normalisation). sign/verify are pure functions on the pinned tree; what the simulator adds is the restart/reload dimension, the interleaving of sessions of both suites in one process and replayability.",
   technique="deterministic simulation: seeded sessions with neutral faults and crash-restart, ideal-functionality oracle"),
 "C02": dict(engine=REAL_BBS, cat="fault_enumeration", ref="§5 C02",
   text="Every fault of the wire/store catalogue applied to an honest Credential frame and delivered to the Holder node: all 640 single-bit flips of the signature (complete every 16 runs), every single-element list fault for small L, header faults, misroute to the other suite / blind interface / another key, stored-pk bit flips, blind-interface signatures at plain endpoints. Verdict by content: a frame whose statement equals no signed statement must be rejected. The bit-flip and single-edit spaces are finite and enumerated completely; shapes are sampled.",
   note="Acceptance of a MustReject frame by correct code has probability <= 2^-128. A verifier panic counts as rejection here and is charged to C08.",
   technique="deterministic simulation: complete wire-fault enumeration on the issuance channel, ideal-functionality oracle"),
 "C03": dict(engine=REAL_BBS, cat="exploration", ref="§5 C03",
   text="Seeded search over presentation sessions Issuer -> Holder -> Verifier. The Holder's proof_gen runs the library's production randomness path (never run by the test suite) on its own OS thread, fed by a deterministic per-node entropy stream injected below getrandom(2), with EINTR and short reads, holder crash-restart before presenting and tick preemption inside the library's loops. Disclosure sets: all 2^L subsets in rotation for L<=6, none/all/random above. Neutral faults only; oracle MustAccept plus the length formula 272+32U.",
   note="'reveals nothing else' is decided as the length formula only. Exploration: sampled, not enumerated (the subsets for L<=4 are completed within a quick batch).",
   technique="deterministic simulation: entropy seam below rand, crash-restart, preemption, ideal-functionality oracle"),
 "C04": dict(engine=REAL_BBS, cat="fault_enumeration", ref="§5 C04",
   text="The corrupting catalogue on the Presentation frame (every bit of the fixed 272 octets every 16 runs plus all bits of one response, whole-scalar truncation/extension, dropped/inserted responses, every single-element fault of the disclosed-message list, every integer corruption of every index, permuted/dropped/duplicated/added pairs, header/ph faults, misroute) and an active network adversary (Mallory) who builds frames from public data only: 8 degenerate-element families x 3 claimed statements, through from_bytes and through the serde decoder, with the challenge computed by the executable spec model. Verdict by content: anything no honest prover produced for that statement must be rejected.",
   note="Found the universal forgery F1 on the pinned tree (fixed in /repo bb0073d). Consistently permuted/duplicated (index,message) pairs are DontCare. Crashes count as rejection and are charged to C08.",
   technique="deterministic simulation: wire-fault enumeration plus Byzantine frame families, ideal-functionality oracle"),
 "C05": dict(engine=REAL_BBS, cat="exploration", ref="§5 C05",
   text="Blind issuance and presentation sessions over all 321 (L, M, disclosure pair) combinations with L+M<=5 for both suites (complete every 642 runs) and sampled shapes up to (40,40), including issuance without a commitment; production commit/proof randomness through the entropy seam with EINTR/short reads; holder crash-restart between commit and receipt of the signature (the blind factor survives only as 32 octets) and before presenting; neutral faults only; oracle MustAccept and the proof-length formula.",
   note="A blind signature issued without commitment is checked with no committed messages and an absent (zero) blind factor.",
   technique="deterministic simulation: enumerated small shapes + seeded search, entropy seam, crash-restart with durable blind factor"),
 "C06": dict(engine=REAL_BBS, cat="fault_enumeration", ref="§5 C06",
   text="On the BlindRequest hop: every bit flip of the commitment-with-proof (in slices across runs), whole-scalar truncation/extension, dropped/inserted response, cross-suite replay and splices with a second honest request -- the Issuer node must refuse everything that is not byte-identical to an honest request for its suite. On the BlindCredential and Presentation hops: single edits of committed messages, signer messages, blind factor (all 256 bit flips every 8 runs), header, ph, L, indexes, pk, signature and proof bits, misroute to other suite/interface/key -- verdict by content.",
   note="Requests extended by 1..31 octets are C09's clause, not C06's. Crashes count as refusal and are charged to C08.",
   technique="deterministic simulation: wire-fault enumeration on the three blind hops, ideal-functionality oracle"),
 "C08": dict(engine=REAL_BBS, cat="fault_enumeration", ref="§5 C08",
   text="A maximally faulty channel in front of every BBS handler: the finite space {15 octet-string entry points} x {7 content classes} x {every length 0..=1024}, the serde_json decoders on every truncation / wrong-type / huge-array variant of honest JSON, and corrupted integers and index lists on verify, proof_verify, blind_proof_verify, proof_gen, blind_proof_gen, update_signature, is enumerated completely every 129 runs. The victim node must return: a panic, an arithmetic overflow (overflow-checks on), a work-budget trip (ticks of the guarded hook, no clock) or an allocation-budget trip (counting allocator) is a violation.",
   note="Found F2 and F3 on the pinned tree (fixed in /repo 7bc6f36, b3ccb8b). n of update_signature and the caller's own message lists are trusted inputs. Allocation failure is not injected.",
   technique="deterministic simulation: torn/garbage frame enumeration, crash and work/allocation meters as the observation"),
 "C09": dict(engine=REAL_BBS, cat="fault_enumeration", ref="§5 C09",
   text="Per artefact type and suite: durable round trips across a node restart in every codec (octets, JSON, pk coordinates); and the complete fault neighbourhood of an honest encoding -- extension by 1..=64 octets x 3 content classes, truncation to every length, every single-bit flip, every non-canonical/forbidden substitution in every point and scalar slot -- with the oracle: accepted => re-encoding equals the delivered octets, forbidden class => Err. 48 runs enumerate everything.",
   note="Found F4 and the identity/zero decodes of F1 on the pinned tree (fixed in /repo 7bc6f36, bb0073d). Decoders are pure functions; the simulator contributes the restart/reload observation and replay.",
   technique="deterministic simulation: fault-neighbourhood enumeration of stored/in-flight encodings, restart round trips"),
}

NOT_APPLICABLE = []

def main():
    checks = []
    for pid in sorted(CHECKS):
        c = CHECKS[pid]
        checks.append({
            "property_id": pid,
            "quick_cmd": f"./zk check {pid} --tier quick",
            "thorough_cmd": f"./zk check {pid} --tier thorough",
            "evidence_file": f"/verif/evidence/{pid}.json",
            "replay_cmd_template": "./zk replay {path}",
            "engine": c["engine"],
            "level_claimed": {"category": c["cat"], "text": c["text"], "design_ref": c["ref"]},
            "level_note": c["note"],
            "technique": c["technique"],
        })
    claimed = set(CHECKS)
    na = [x for x in NOT_APPLICABLE if x["property_id"] not in claimed]
    allp = [json.loads(l)["id"] for l in open("/verif/properties.jsonl")]
    for p in allp:
        if p not in claimed and p not in [x["property_id"] for x in na]:
            na.append({"property_id": p, "reason": "check not built yet in this session (planned: see DESIGN.md §5); not a statement about applicability"})
    try:
        hooks = subprocess.check_output(["git", "-C", "/repo", "log", "--format=%h", "--grep=^verif:"], text=True).split()
    except Exception:
        hooks = []
    m = {
        "version": 1,
        "setup_cmd": "./zk setup",
        "hooks": {
            "guard": "--cfg zkryptium_verif",
            "enable": "rustflags = [\"--cfg\", \"zkryptium_verif\"] in /verif/sim/*/.cargo/config.toml; the engines depend on /repo by path (CL03: shadow manifest with [lib] path=/repo/src/lib.rs) and rebuild it on every check",
            "baseline_off_cmd": "cd /repo && cargo test --workspace --no-fail-fast --offline",
            "source_commits": hooks,
            "add_only": True,
        },
        "engines": [
            {"name": "zksim-bbs", "path": "sim/bbs", "serves_properties": [p for p in sorted(CHECKS) if CHECKS[p]["engine"] == REAL_BBS],
             "kind_free_text": "deterministic simulation with fault injection: protocol roles on real OS threads under a baton scheduler driven by one seeded chooser, entropy seam at getrandom(2) (LD_PRELOAD shim), wire/store fault catalogue, ideal-functionality and executable-spec oracles, choice-list minimiser and replay"},
            {"name": "zksim-cl", "path": "sim/cl", "serves_properties": [p for p in sorted(CHECKS) if CHECKS[p]["engine"] == REAL_CL],
             "kind_free_text": "same engine for the CL03 feature (built through a shadow manifest against a locally built GMP 6.3.0)"},
        ],
        "checks": checks,
        "not_applicable": na,
        "notes": "Exit codes of every command: 0 held / known findings only, 1 VIOLATION, 2 harness error. VERIF_SEED, VERIF_TIER and VERIF_BUDGET_S are honoured. Known findings: /verif/known_findings.txt.",
    }
    json.dump(m, open("/verif/MANIFEST.json", "w"), indent=1)
    print("wrote MANIFEST.json with", len(checks), "checks;", len(na), "not claimed")

main()
