#!/usr/bin/env python3
"""Regenerates /verif/MANIFEST.json from the table below (kept next to the code so the
manifest never drifts from what is built)."""
import json, subprocess

REAL_BBS = "zksim-bbs"
REAL_CL = "zksim-cl"

CHECKS = {
 "C01": dict(engine=REAL_BBS, cat="exploration", ref="§5 C01",
   text="Seeded search over issuance sessions (both suites, varied key material/key_info/header/L/message sizes) run as Issuer and Holder nodes on their own threads under the baton scheduler, with neutral faults only (absent<->empty toggles, swap of equal messages, dup+drop, frame duplication) and issuer/holder crash-restart with reload from octets, coordinates and JSON. The ideal functionality says MustAccept for every delivered frame, so any rejection, any sign failure, or two different signatures for one statement is a violation. Exploration is the right level: the space of inputs is unbounded and is sampled, not enumerated.",
   note="Trusts the ideal-functionality oracle (content comparison after None==empty normalisation). sign/verify are pure functions on the pinned tree; what the simulator adds is the restart/reload dimension, the interleaving of sessions of both suites in one process and replayability.",
   technique="deterministic simulation: seeded sessions with neutral faults and crash-restart, ideal-functionality oracle"),
 "C02": dict(engine=REAL_BBS, cat="fault_enumeration", ref="§5 C02",
   text="Every fault of the wire/store catalogue applied to an honest Credential frame and delivered to the Holder node: all 640 single-bit flips of the signature (complete every 16 runs), every single-element list fault for small L, header faults, misroute to the other suite / blind interface / another key, stored-pk bit flips, blind-interface signatures at plain endpoints. Verdict by content: a frame whose statement equals no signed statement must be rejected. The bit-flip and single-edit spaces are finite and enumerated completely; shapes are sampled.",
   note="Acceptance of a MustReject frame by correct code has probability <= 2^-128. A verifier panic counts as rejection here and is charged to C08.",
   technique="deterministic simulation: complete wire-fault enumeration on the issuance channel, ideal-functionality oracle"),
 "C03": dict(engine=REAL_BBS, cat="exploration", ref="§5 C03",
   text="Seeded search over presentation sessions Issuer -> Holder -> Verifier. The Holder's proof_gen runs the library's production randomness path (never run by the test suite) on its own OS thread, fed by a deterministic per-node entropy stream injected below getrandom(2), with EINTR and short reads, holder crash-restart before presenting and tick preemption inside the library's loops. Disclosure sets: all 2^L subsets in rotation for L<=6, none/all/random above. Neutral faults only; oracle MustAccept plus the length formula 272+32U.",
   note="'reveals nothing else' is decided as the length formula only. Exploration: sampled, not enumerated (the subsets for L<=4 are completed within a quick batch).",
   technique="deterministic simulation: entropy seam below rand, crash-restart, preemption, ideal-functionality oracle"),
 "C04": dict(engine=REAL_BBS, cat="fault_enumeration", ref="§5 C04",
   text="The corrupting catalogue on the Presentation frame (every bit of the fixed 272 octets every 16 runs plus all bits of one response, whole-scalar truncation/extension, dropped/inserted responses, every single-element fault of the disclosed-message list, every integer corruption of every index, permuted/dropped/duplicated/added pairs, header/ph faults, misroute) and an active network adversary (Mallory) who builds frames from public data only: 8 degenerate-element families x 3 claimed statements, through from_bytes and through the serde decoder, with the challenge computed by the executable spec model. Verdict by content: anything no honest prover produced for that statement must be rejected.",
   note="Found the universal forgery F1 on the pinned tree (fixed in /repo bb0073d). Consistently permuted/duplicated (index,message) pairs are DontCare. Crashes count as rejection and are charged to C08.",
   technique="deterministic simulation: wire-fault enumeration plus Byzantine frame families, ideal-functionality oracle"),
 "C05": dict(engine=REAL_BBS, cat="exploration", ref="§5 C05",
   text="Blind issuance and presentation sessions over all 321 (L, M, disclosure pair) combinations with L+M<=5 for both suites (complete every 642 runs) and sampled shapes up to (40,40), including issuance without a commitment; production commit/proof randomness through the entropy seam with EINTR/short reads; holder crash-restart between commit and receipt of the signature (the blind factor survives only as 32 octets) and before presenting; neutral faults only; oracle MustAccept and the proof-length formula.",
   note="A blind signature issued without commitment is checked with no committed messages and an absent (zero) blind factor.",
   technique="deterministic simulation: enumerated small shapes + seeded search, entropy seam, crash-restart with durable blind factor"),
 "C06": dict(engine=REAL_BBS, cat="fault_enumeration", ref="§5 C06",
   text="On the BlindRequest hop: every bit flip of the commitment-with-proof (in slices across runs), whole-scalar truncation/extension, dropped/inserted response, cross-suite replay and splices with a second honest request -- the Issuer node must refuse everything that is not byte-identical to an honest request for its suite. On the BlindCredential and Presentation hops: single edits of committed messages, signer messages, blind factor (all 256 bit flips every 8 runs), header, ph, L, indexes, pk, signature and proof bits, misroute to other suite/interface/key -- verdict by content.",
   note="Requests extended by 1..31 octets are C09's clause, not C06's. Crashes count as refusal and are charged to C08.",
   technique="deterministic simulation: wire-fault enumeration on the three blind hops, ideal-functionality oracle"),
 "C08": dict(engine=REAL_BBS, cat="fault_enumeration", ref="§5 C08",
   text="A maximally faulty channel in front of every BBS handler: the finite space {15 octet-string entry points} x {7 content classes} x {every length 0..=1024}, the serde_json decoders on every truncation / wrong-type / huge-array variant of honest JSON, and corrupted integers and index lists on verify, proof_verify, blind_proof_verify, proof_gen, blind_proof_gen, update_signature, is enumerated completely every 129 runs. The victim node must return: a panic, an arithmetic overflow (overflow-checks on), a work-budget trip (ticks of the guarded hook, no clock) or an allocation-budget trip (counting allocator) is a violation.",
   note="Found F2 and F3 on the pinned tree (fixed in /repo 7bc6f36, b3ccb8b). n of update_signature and the caller's own message lists are trusted inputs. Allocation failure is not injected.",
   technique="deterministic simulation: torn/garbage frame enumeration, crash and work/allocation meters as the observation"),
 "C09": dict(engine=REAL_BBS, cat="fault_enumeration", ref="§5 C09",
   text="Per artefact type and suite: durable round trips across a node restart in every codec (octets, JSON, pk coordinates); and the complete fault neighbourhood of an honest encoding -- extension by 1..=64 octets x 3 content classes, truncation to every length, every single-bit flip, every non-canonical/forbidden substitution in every point and scalar slot -- with the oracle: accepted => re-encoding equals the delivered octets, forbidden class => Err. 48 runs enumerate everything.",
   note="Found F4 and the identity/zero decodes of F1 on the pinned tree (fixed in /repo 7bc6f36, bb0073d). Decoders are pure functions; the simulator contributes the restart/reload observation and replay.",
   technique="deterministic simulation: fault-neighbourhood enumeration of stored/in-flight encodings, restart round trips"),
 "C07": dict(engine=REAL_BBS, cat="exploration", ref="§5 C07",
   text="K in 2..6 holder nodes, each a real OS thread with its own thread_rng fed by its own deterministic entropy stream, perform 2..6 generations each (proof_gen, blind_proof_gen, commit, KeyPair::random + BlindFactor::random) on identical inputs, interleaved by the scheduler with tick preemption, holder crash-restart (fresh thread-local RNG) and EINTR/short reads. A wire monitor that holds every witness recomputes the blinding values of every transcript (e~, m~_j, s~, cm~_i) and requires, over the whole history of the run: non-zero, >= 2^160, pairwise distinct; no repeated response, Abar, Bbar, D, commitment, blind factor or random key; no window of a proof/commitment equal to a hidden scalar, e, A or the blind factor.",
   note="'No pair of transcripts allows extraction' is decided in the form the property's own quantifier gives, not as a proof of zero knowledge. A deterministic generator that ignores OS entropy but spreads well (hashed global counter) would pass the distinctness oracle.",
   technique="deterministic simulation: multi-thread history with per-node entropy streams and crash-restart, witness-holding wire monitor"),
 "C10": dict(engine=REAL_BBS, cat="exploration", ref="§5 C10, Appendix B",
   text="Operation-by-operation refinement against an executable spec model written from the two drafts (own expand_message_xmd/xof, hash_to_scalar, KeyGen, SkToPk, create_generators, messages_to_scalars, domain, Sign, Verify, ProofVerify, blind commit/sign/verify/proof-verify) that first has to reproduce all 110 fixture vectors incl. trace values (otherwise exit 2). 12..31 deterministic operations per run -- across the ikm/key_info/DST limits, counts 0..257 (1000+ thorough), plain/blind/BLIND_/empty/arbitrary api_ids, headers across 255/256, and accept/reject decisions of all five verifiers on honest and singly mutated artefacts -- are spread over 1, 2-4, 5-8 or 16 nodes, interleaved with tick preemption, and each result is compared with the model (octets and Ok/Err) and, for a sample, with the same operation alone on a fresh thread.",
   note="Trusted base: the model's reading of the drafts (DESIGN.md Appendix B) pinned by the fixtures; bls12_381_plus curve arithmetic, hash-to-curve and pairing are shared with the library. The first sentence of C10 is a pure-function claim: the simulator is its vehicle (schedule dimension + replay), the deciding oracle is the reference model.",
   technique="deterministic simulation: interleaved operations checked op-by-op against an executable reference model"),
 "C11": dict(engine=REAL_BBS, cat="fault_enumeration", ref="§5 C11",
   text="Misdelivery as a network fault: every honest artefact (signature, proof, commitment-with-proof, blind signature, blind proof) of (suite s, interface i) is delivered to every endpoint (s', i'); the 3 foreign endpoints per artefact must reject (complete matrix per run, both suites over consecutive runs). Generator sets created by 6..13 calls in a per-run order, spread over two nodes with preemption inside create_generators, are checked for count, identity, P1, duplicates, prefix consistency with every earlier set of the same api_id and disjointness from every set of another api_id.",
   note="Foreign endpoints try every plausible way of feeding the artefact (with/without committed messages, every L). The generator clauses are pure on the pinned tree; the interleaved re-evaluation is where a wrongly keyed cache shows.",
   technique="deterministic simulation: complete misroute matrix plus cross-call generator invariants under interleaving"),
 "C12": dict(engine=REAL_BBS, cat="exploration", ref="§5 C12",
   text="A history property: a holder-intended sequence of up to 10 (thorough 32) single-message updates travels as UpdateRequest frames over a channel that reorders, duplicates, drops and corrupts them; the Issuer node applies them in arrival order; a sequential model (message vector + e) decides after every step: correct old value => the reply verifies for the intended vector, keeps e and its A equals B(vector)/(sk+e) computed by the spec model; index >= L => error; wrong old value (alteration, reorder, double application) => the reply must not verify for the intended vector; finally every epoch's signature is replayed against every other epoch's vector.",
   note="n passed to update_signature is the true message count (trusted).",
   technique="deterministic simulation: faulty request stream checked step by step against a sequential model"),
 "C13": dict(engine=REAL_CL, cat="exploration", ref="§5 C13",
   text="Issuance sessions under pool keys (CL1024, generated by the library on entropy-seamed threads), n = 1..5 attributes incl. corner values, single- and multi-attribute API, JSON and octet transport with holder restart, selective disclosure for all 2^n hidden subsets; a monitor that knows p, q checks every issued (e, s): e prime, exactly le bits, coprime to phi(N), s exactly ls bits. Then the corrupting catalogue on the credential frame and Mallory's signatures derived without the secret key ((v*a_i^k, m_i + k*e), k in {+-1, +-2}, every position). Verdict by content.",
   note="Found F7 on the pinned tree (fixed in /repo 501a80e). CL1024 only. Trailing zero attributes are the same statement (DontCare).",
   technique="deterministic simulation: channel corruption + Byzantine frames on the CL03 issuance leg, number-theoretic monitor"),
 "C14": dict(engine=REAL_CL, cat="exploration", ref="§5 C14",
   text="Blind issuance as a 2/3-party protocol (Holder, Issuer, optional trusted party) for all 57 (n <= 5, non-empty hidden set) combinations in rotation: commit, proof JSON, commitment VALUE only on the wire, verify_proof, blind_sign (refusal = caught panic), unblind across a holder restart, verify on the full vector, re-issuance after a revealed attribute changed (new vector only, stale signature rejected, e kept). Mismatching requests (other attributes, other hidden set, other bases/key, foreign trusted commitment, perturbed proof leaves) must make verify_proof false and blind_sign refuse.",
   note="Found F6 on the pinned tree (fixed in /repo 9f3f736). Known finding: the `randomness` leaves of commitments embedded in the proof are never read by the verifier, so altering them goes unnoticed (consequence of F9).",
   technique="deterministic simulation: enumerated hidden sets, request corruption, refusal-by-panic observed as node outcome"),
 "C15": dict(engine=REAL_CL, cat="exploration", ref="§5 C15",
   text="Presentation sessions Issuer -> Holder -> Verifier for all 62 (n <= 5, hidden subset incl. none/all) combinations in rotation with the verifier's commitment key over the issuer modulus; then single edits of revealed attributes, signer key, bases, commitment key, hidden set and n, and a rotating slice of all integer leaves of the serialized proof perturbed (+1, -1, zero, negate, swap). Verdict by content; a panic counts as not verifying.",
   note="Known finding: the `randomness` leaves of embedded commitments are never read by the verifier (consequence of F9). CL1024 only.",
   technique="deterministic simulation: enumerated hidden sets and field-level tampering of the presentation frame"),
 "C16": dict(engine=REAL_CL, cat="exploration", ref="§5 C16",
   text="Range-proof sessions Prover -> Verifier over widths {1,2,3,2^k,2^256-1,random} x positions {a,b,a+1,b-1,mid,random} x pool keys (216 combinations in rotation); foreign bounds/bases/modulus/commitment at the verifier; EVERY integer leaf of every proof perturbed; Mallory's transplant of the honest sub-proofs onto commitments to a-1, b+1, a-2^200 and a random group element with E_a_1/E_b_1 recomputed; the honest prover on out-of-range values must not obtain an accepted proof.",
   note="Found F8 on the pinned tree (fixed in /repo ef76ba6). Known finding: F -> -F in a proof of square is accepted when the challenge and d are both even (sign malleability in Z_N^*).",
   technique="deterministic simulation: field-level tampering plus Byzantine transplant on the range-proof frame"),
 "C17": dict(engine=REAL_CL, cat="exploration", ref="§5 C17",
   text="A passive observer on the transport with an omniscient checker: for every serialized issuance proof and signature proof (all hidden sets in rotation, with/without trusted party, full 256-bit attributes) every {value, randomness} object is tested against every public base pair and every secret of the sender (opening, recovery of v, two-candidate dictionary test) and every integer leaf against every secret.",
   note="Known findings (F9, design-level: commitments are serialized with their randomness): listed one by one in known_findings.txt by frame/field/secret/base pair; any other opening is still a violation. No fault or schedule dimension: the simulator contributes the vantage point, the entropy seam and replay.",
   technique="deterministic simulation: wire monitor with the sender's secrets (per-message invariant)"),
 "C18": dict(engine=REAL_CL, cat="exploration", ref="§5 C18",
   text="Key generation INSIDE the simulation on node threads whose entropy stream is keyed by the run seed (any failing key is regenerated exactly by the replay), with injected EINTR and short reads; a monitor with p, q checks N = pq, safe primes of 513 bits, every generated element in (1,N), coprime, quadratic residue mod p and q, pairwise distinct; own-modulus commitment keys partially; byte/JSON round trips of pk, sk, signature and KeyPair across a node restart; 800 draws per run of random_bits / rand_int for exact length and range.",
   note="CL1024 only. 'g_i in <h>' is checked as quadratic residuosity. For own-modulus commitment keys the factors are discarded by the library.",
   technique="deterministic simulation: seeded search over entropy streams with exact regeneration, restart round trips"),
 "C19": dict(engine=REAL_CL, cat="exploration", ref="§5 C19",
   text="Same sessions and vantage point as C17: the monitor recomputes every Fiat-Shamir challenge the recipient can and tests, for every response leaf, |floor(s/c) - x| < 2^64 and |floor(s/s') - x| < 2^64 against every secret x of the sender.",
   note="Known findings (F10: blinding terms as short as the secrets): listed one by one in known_findings.txt by frame/response/divisor/secret; any other leak is still a violation. Hidden attributes are full 256-bit values (Appendix A.18).",
   technique="deterministic simulation: wire monitor with the sender's secrets (per-message invariant)"),
}

NOT_APPLICABLE = []

def main():
    checks = []
    for pid in sorted(CHECKS):
        c = CHECKS[pid]
        checks.append({
            "property_id": pid,
            "quick_cmd": f"./zk check {pid} --tier quick",
            "thorough_cmd": f"./zk check {pid} --tier thorough",
            "evidence_file": f"/verif/evidence/{pid}.json",
            "replay_cmd_template": "./zk replay {path}",
            "engine": c["engine"],
            "level_claimed": {"category": c["cat"], "text": c["text"], "design_ref": c["ref"]},
            "level_note": c["note"],
            "technique": c["technique"],
        })
    claimed = set(CHECKS)
    na = [x for x in NOT_APPLICABLE if x["property_id"] not in claimed]
    allp = [json.loads(l)["id"] for l in open("/verif/properties.jsonl")]
    for p in allp:
        if p not in claimed and p not in [x["property_id"] for x in na]:
            na.append({"property_id": p, "reason": "check not built yet in this session (planned: see DESIGN.md §5); not a statement about applicability"})
    try:
        hooks = subprocess.check_output(["git", "-C", "/repo", "log", "--format=%h", "--grep=^verif:"], text=True).split()
    except Exception:
        hooks = []
    m = {
        "version": 1,
        "setup_cmd": "./zk setup",
        "hooks": {
            "guard": "--cfg zkryptium_verif",
            "enable": "rustflags = [\"--cfg\", \"zkryptium_verif\"] in /verif/sim/*/.cargo/config.toml; the engines depend on /repo by path (CL03: shadow manifest with [lib] path=/repo/src/lib.rs) and rebuild it on every check",
            "baseline_off_cmd": "cd /repo && cargo test --workspace --no-fail-fast --offline",
            "source_commits": hooks,
            "add_only": True,
        },
        "engines": [
            {"name": "zksim-bbs", "path": "sim/bbs", "serves_properties": [p for p in sorted(CHECKS) if CHECKS[p]["engine"] == REAL_BBS],
             "kind_free_text": "deterministic simulation with fault injection: protocol roles on real OS threads under a baton scheduler driven by one seeded chooser, entropy seam at getrandom(2) (LD_PRELOAD shim), wire/store fault catalogue, ideal-functionality and executable-spec oracles, choice-list minimiser and replay"},
            {"name": "zksim-cl", "path": "sim/cl", "serves_properties": [p for p in sorted(CHECKS) if CHECKS[p]["engine"] == REAL_CL],
             "kind_free_text": "same engine for the CL03 feature (built through a shadow manifest against a locally built GMP 6.3.0)"},
        ],
        "checks": checks,
        "not_applicable": na,
        "notes": "Exit codes of every command: 0 held / known findings only, 1 VIOLATION, 2 harness error. The thorough commands of C13-C19 run the CL1024 batch and then a short CL2048 batch of the same scenario (evidence/<ID>-cl2048.json). VERIF_SEED, VERIF_TIER and VERIF_BUDGET_S are honoured. Known findings: /verif/known_findings.txt.",
    }
    json.dump(m, open("/verif/MANIFEST.json", "w"), indent=1)
    print("wrote MANIFEST.json with", len(checks), "checks;", len(na), "not claimed")

main()
