#!/usr/bin/env python3
"""Round 5 of the seeded changes (/tmp/mutout5: C01, C03, C05, C07, C10, C11, C18; same brief as round 4
plus the list of everything rounds 1-4 had used) -> /verif/seeded/Cxx-r1|r2 with a meta.json each."""
import json, os, shutil, re
SRC = "/tmp/mutout5"
NEEDS5 = {
 "C01-r1": ("signer merges equal message scalars with Vec::dedup_by, closure arguments the wrong way round (src/bbsplus/signature.rs)", "L >= 16 and at least two equal messages"),
 "C01-r2": ("lazily evaluated log::debug! line divides by the message count (src/utils/message.rs)", "an empty / absent message list AND a logger installed at Debug level in the process"),
 "C03-r1": ("undisclosed messages selected by scalar VALUE with a one-pass cursor (src/utils/util.rs, proof.rs)", "two equal messages i < j with a different hidden message between them, i hidden and j disclosed"),
 "C03-r2": ("strict hex deserializers that borrow &str (src/utils/util.rs, proof.rs)", "decoding a proof with serde_json::from_reader or from_value (from_str still works)"),
 "C05-r1": ("blind_proof_verify de-duplicates the disclosed message lists by content (src/bbsplus/proof.rs)", "two neighbouring disclosed messages with identical octets"),
 "C05-r2": ("random scalars expanded from one seed in blocks of 170 with the block count off by one (src/utils/util.rs)", "exactly 168 committed messages / 165 hidden scalars (multiples of 170): panic"),
 "C07-r1": ("each batch of random scalars drawn from StdRng::seed_from_u64(32 random bits) (src/utils/util.rs)", "volume: whole batches repeat after ~2^16 generations"),
 "C07-r2": ("BlindFactor::random as rejection sampling with 20 attempts and a zero fallback (src/bbsplus/commitment.rs)", "a rare event: a zero blind factor once in ~173000 draws"),
 "C10-r1": ("one-time known-answer self-test in key generation whose 'running' state is reported as failure (src/bbsplus/keys.rs)", "a second thread generating a key while the FIRST key generation of the process is still inside the self-test (no tick in the window)"),
 "C10-r2": ("blind_sign refuses a public key that does not belong to the secret key (src/bbsplus/blind.rs)", "BlindSign with a foreign public key (the draft only uses it as octets in the domain)"),
 "C11-r1": ("api_id passed through String::from_utf8_lossy for a trace line and then used (src/bbsplus/generators.rs)", "two api_ids that differ only in octets that are not valid UTF-8"),
 "C11-r2": ("core_commit_verify returns Ok(bool) and its caller still tests is_ok() (src/bbsplus/commitment.rs)", "any commitment delivered to the other ciphersuite (or any tampered commitment proof)"),
 "C18-r1": ("write_keypair_to_file through OpenOptions without truncate (src/keys/pair.rs)", "the same path written twice, the earlier document longer: the stored key pair does not parse"),
 "C18-r2": ("deserializer of the modulus bounded by 3072 bits (src/cl03/keys.rs)", "CL3072 keys (3073/3074-bit moduli) through any serde decoder"),
}
confirm = {}
for l in open(f"{SRC}/CONFIRM.tsv"):
    p = l.rstrip("\n").split("\t")
    if len(p) >= 4: confirm[p[0]] = p[1:]
sens = {}
for fn in ("/tmp/sens5.log", "/tmp/sens5b.log", "/tmp/sens5c.log", "/tmp/sens5d.log"):
    try:
        for l in open(fn, errors="replace"):
            m = re.match(r"^(C\d+-r\d) (C\d+) exit=(\d+) ?(.*)$", l.strip())
            if m: sens.setdefault(m.group(1), {}).setdefault(m.group(2), []).append({"exit": int(m.group(3)), "violation_keys": m.group(4)[:500]})
    except FileNotFoundError: pass
for name, (what, needs) in sorted(NEEDS5.items()):
    pid, m = name.split("-")
    d = f"{SRC}/{pid}/m{m[1:]}"
    if not os.path.exists(f"{d}/patch.diff"): print("missing", d); continue
    out = f"/verif/seeded/{name}"
    os.makedirs(out, exist_ok=True)
    for f in ("patch.diff", "demo.rs", "notes.md"):
        if os.path.exists(f"{d}/{f}"): shutil.copy(f"{d}/{f}", f"{out}/{f}")
    meta = {
        "breaks_property": pid, "round": 5, "change": what, "needs_to_manifest": needs,
        "base_commit": "3083a00 (final tree)",
        "origin": "written by a sub-agent that saw only the text of the property, the ideas of rounds 1-4 and its own scratch worktree",
        "confirmed_in_scratch_worktree": {"results": confirm.get(f"{pid}-m{m[1:]}", [])},
        "checks_run_against_it": "scripts/selftest_sensitivity.sh (scratch worktree of /repo, engines rebuilt against it, quick tier); runs listed in order, the last one is the final harness",
        "own_and_extra_checks": sens.get(name, {}),
    }
    json.dump(meta, open(f"{out}/meta.json", "w"), indent=1)
print("seeded dirs:", len(os.listdir("/verif/seeded")))
