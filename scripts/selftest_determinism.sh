#!/bin/bash
# Determinism self-test: every run seed executed in separate processes at different worker
# counts; the per-run event-log and schedule hashes must agree (DESIGN.md §8).
#   scripts/selftest_determinism.sh [bbs|cl|all] [runs]
set -u
V=/verif; which=${1:-all}; n=${2:-128}
bad=0
run() { # engine ids...
  bin=$1; shift
  for id in "$@"; do
    ZKSIM_WORKERS=16 $bin hashes $id $n 2>/dev/null | grep "^$id " > /tmp/zkdet.a
    ZKSIM_WORKERS=3  $bin hashes $id $n 2>/dev/null | grep "^$id " > /tmp/zkdet.b
    ZKSIM_WORKERS=1  $bin hashes $id $((n/8)) 2>/dev/null | grep "^$id " > /tmp/zkdet.c
    head -$((n/8)) /tmp/zkdet.a > /tmp/zkdet.a8
    if cmp -s /tmp/zkdet.a /tmp/zkdet.b && cmp -s /tmp/zkdet.a8 /tmp/zkdet.c && [ -s /tmp/zkdet.a ]; then echo "determinism $id: $(wc -l < /tmp/zkdet.a) runs identical across 3 processes (16 / 3 / 1 workers)"; else echo "determinism $id: DIVERGED"; diff /tmp/zkdet.a /tmp/zkdet.b | head -5; bad=1; fi
  done
}
case $which in bbs|all) run $V/build/target-bbs/release/zksim-bbs C01 C02 C03 C04 C05 C06 C07 C08 C09 C10 C11 C12;; esac
case $which in cl|all) n=$((n/8)); run $V/build/target-cl/release/zksim-cl C13 C14 C15 C16 C17 C18 C19;; esac
rm -f /tmp/zkdet.*
[ $bad = 0 ] && exit 0 || exit 2
