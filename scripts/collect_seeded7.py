#!/usr/bin/env python3
"""Round 7 of the seeded changes (/tmp/mutout7: C01, C03, C05, C07, C10, C11, C17, C18) ->
/verif/seeded/Cxx-t1|t2 with a meta.json each."""
import json, os, shutil, re
SRC = "/tmp/mutout7"
NEEDS7 = {
 "C01-t1": ("verifier-side bucket multi-scalar multiplication for >= 32 messages whose window digits are read from two octets (src/bbsplus/signature.rs)", "16383 messages and more (window width 11): verify rejects the honest signature"),
 "C01-t2": ("messages_to_scalar refuses lists whose total size exceeds 16 MiB (src/utils/message.rs)", "one message of 2^24 + 1 octets, or messages adding up to more"),
 "C03-t1": ("repetition-count health test on the random-scalar draw; a failing sample returns an empty vector (src/utils/util.rs, commitment.rs)", "a rare random event: about (5 + U) * 3.6e-6 per proof_gen"),
 "C03-t2": ("the four accumulation loops of proof_init / proof_verify_init refactored into a recursive helper (src/bbsplus/proof.rs)", "L above ~2000-2500 on a thread with a 2 MiB stack: the process aborts"),
 "C05-t1": ("hash_to_scalar refuses messages longer than 65535 octets (src/utils/util.rs)", "a committed or signer message, header or ph of 64 KiB and more"),
 "C05-t2": ("blind_proof_gen computes L - 1 unconditionally (src/bbsplus/proof.rs)", "no signer messages (L = 0) in a build with overflow checks"),
 "C07-t1": ("scalars of a batch beyond the eighth are a public hash of the previous one (src/utils/util.rs)", "a proof with at least 4 hidden messages / a commitment to at least 7: all values distinct and non-zero; recovering one blinder gives the later ones, with the formula"),
 "C07-t2": ("KeyPair::random takes its key material from the environment variable ZKRYPTIUM_IKM when set (src/bbsplus/keys.rs)", "process configuration: the variable set to 32+ octets of hex"),
 "C10-t1": ("PublicKey::from_bytes also accepts the 192-octet uncompressed form (src/bbsplus/keys.rs)", "verification under the same key in its uncompressed encoding: the reference refuses it"),
 "C10-t2": ("generator lists serialized through batch_normalize with a stale scratch buffer (src/utils/util.rs)", "more than 2048 generators, not a multiple of 2048: Sign differs from the draft"),
 "C11-t1": ("one trailing LF / CR stripped from the api_id before generator derivation (src/bbsplus/generators.rs)", "two api_ids that differ only in a line terminator"),
 "C11-t2": ("blind_proof_verify delegates to the plain verifier when L equals the number of proof terms and no commitment index is disclosed (src/bbsplus/proof.rs)", "a plain proof over n messages presented to the blind interface with L = n"),
 "C17-t1": ("blinder lengths of the per-attribute proof crossed: the mask of the commitment randomness has 256 bits (src/cl03/sigma_protocols.rs)", "every hidden attribute: floor(s2 / c) gives the randomness of the per-attribute commitment up to a few units"),
 "C17-t2": ("factor n dropped from the bound of mu_1 in proof_same_secret (src/cl03/range_proof.rs)", "every range proof: floor(d_1 / c) is the randomness of the auxiliary commitment F, whose exponent is a public function of the attribute"),
 "C18-t1": ("write_keypair_to_file through a per-process temporary name and a rename (src/keys/pair.rs)", "two threads of one process storing different key pairs into the same directory at the same time"),
 "C18-t2": ("CRT e-th root in blind_sign / update_signature whose Garner step can return v - N (src/cl03/blind.rs)", "a blind-issued signature under a key with q > p, with probability (q-p)^2 / 2pq: it does not survive to_bytes"),
}
confirm = {}
for l in open(f"{SRC}/CONFIRM.tsv"):
    p = l.rstrip("\n").split("\t")
    if len(p) >= 4: confirm[p[0]] = p[1:]
sens = {}
for fn in ("/tmp/sens7.log", "/tmp/sens7b.log", "/tmp/sens7c.log"):
    try:
        for l in open(fn, errors="replace"):
            m = re.match(r"^(C\d+-t\d) (C\d+) exit=(\d+) ?(.*)$", l.strip())
            if m: sens.setdefault(m.group(1), {}).setdefault(m.group(2), []).append({"exit": int(m.group(3)), "violation_keys": m.group(4)[:500]})
    except FileNotFoundError: pass
for name, (what, needs) in sorted(NEEDS7.items()):
    pid, m = name.split("-")
    d = f"{SRC}/{pid}/m{m[1:]}"
    if not os.path.exists(f"{d}/patch.diff"): print("missing", d); continue
    out = f"/verif/seeded/{name}"
    os.makedirs(out, exist_ok=True)
    for f in ("patch.diff", "demo.rs", "notes.md"):
        if os.path.exists(f"{d}/{f}"): shutil.copy(f"{d}/{f}", f"{out}/{f}")
    meta = {
        "breaks_property": pid, "round": 7, "change": what, "needs_to_manifest": needs,
        "base_commit": "919d68c (final tree)",
        "origin": "written by a sub-agent that saw only the text of the property, the ideas of rounds 1-6 and its own scratch worktree",
        "confirmed_in_scratch_worktree": {"results": confirm.get(f"{pid}-m{m[1:]}", [])},
        "checks_run_against_it": "scripts/selftest_sensitivity.sh (scratch worktree of /repo, engines rebuilt against it, quick tier); runs listed in order, the last one is the final harness",
        "own_and_extra_checks": sens.get(name, {}),
    }
    json.dump(meta, open(f"{out}/meta.json", "w"), indent=1)
print("seeded dirs:", len(os.listdir("/verif/seeded")))
