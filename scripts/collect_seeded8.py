#!/usr/bin/env python3
"""Round 8 of the seeded changes (/tmp/mutout8: C01, C03, C05, C07, C10, C11, C17, C18) ->
/verif/seeded/Cxx-u1|u2 with a meta.json each."""
import json, os, shutil, re
SRC = "/tmp/mutout8"
NEEDS8 = {
 "C02-u1": ("core_verify retries with a domain computed without the 8-octet length prefix of the header (src/bbsplus/signature.rs, util.rs)", "header' = I2OSP(len(header), 8) || header"),
 "C02-u2": ("a message in the serde form {\"value\":\"<hex>\"} is taken as the scalar itself (src/utils/message.rs)", "a message replaced by the serde encoding of the scalar it maps to"),
 "C04-u1": ("proof_verify retries with 32-octet canonical disclosed messages taken as pre-mapped scalars (src/bbsplus/proof.rs)", "a disclosed message replaced by the 32 octets of its own scalar"),
 "C04-u2": ("linear-combination helper of proof_verify_init stops at the first zero scalar (src/bbsplus/proof.rs)", "a forged proof with e^ = 0, Abar / Bbar copied from an honest proof, D = Bv, r3^ = t - c"),
 "C06-u1": ("saturating arithmetic on the untrusted L in blind_proof_verify (src/bbsplus/proof.rs)", "a presentation without committed messages and any L' > L"),
 "C06-u2": ("blind_sign with messages = None decodes the commitment without validating its proof (src/bbsplus/blind.rs)", "the signer passes messages = None: every frame that merely decodes is signed"),
 "C08-u1": ("update_signature derives update_index + 2 generators and loses the checked n + 1 (src/bbsplus/signature.rs)", "update_index = usize::MAX - 1 with n = usize::MAX"),
 "C08-u2": ("range-error message of blind_proof_verify prints M - 1 (src/bbsplus/proof.rs)", "a commitment index list with M = 0: subtraction overflow"),
 "C09-u1": ("one subgroup check on the SUM of the three proof points (src/utils/util.rs, proof.rs)", "two points off the subgroup with cancelling small-order components"),
 "C09-u2": ("skip_serializing_if = Vec::is_empty on ZKPoK.m_cap without a default (src/bbsplus/proof.rs)", "a commitment over zero committed messages through JSON"),
 "C12-u1": ("no-op shortcut when old and new value start at the same address (src/bbsplus/signature.rs)", "old and new value passed as different-length views of one buffer"),
 "C12-u2": ("SK + e and its inverse kept in one process-wide slot per ciphersuite (src/bbsplus/keys.rs, signature.rs)", "two threads inside update_signature for the same suite at the same time (no tick in the window)"),
 "C13-u1": ("verify folded into verify_multiattr with a new length equality check (src/cl03/signature.rs)", "the single-attribute API with a base set of two or more bases"),
 "C13-u2": ("verifier refuses base sets that contain 1 (src/cl03/bases.rs, signature.rs)", "selective disclosure hiding an attribute equal to 0 (disclosed base a_i^0 = 1)"),
 "C14-u1": ("size bounds on the link-proof responses taken from the issuer's suite (src/cl03/sigma_protocols.rs)", "a trusted party that commits under a larger suite than the issuer"),
 "C14-u2": ("blind_sign checks that the revealed positions are the complement of U in 0..a_bases.len() (src/cl03/blind.rs)", "an issuer whose base list is longer than the credential's attribute vector"),
 "C15-u1": ("revealed attributes read by position when the list has n entries (src/cl03/sigma_protocols.rs)", "the whole vector with arbitrary values at the hidden positions; NEUTRALISED by fix 14a5a7e (the count check refuses such a list before this code runs)"),
 "C15-u2": ("half-open interval check in the range-proof prover (src/cl03/range_proof.rs)", "a hidden attribute equal to 2^256 - 1: proof_gen panics"),
 "C16-u1": ("prover takes c from the low half of the digest by octet offset (src/cl03/range_proof.rs)", "prove / verify instantiated with a hash that is not 32 octets wide (SHA-512)"),
 "C16-u2": ("interval test on D_1 written with && instead of || (src/cl03/range_proof.rs)", "D_1 +- phi(n), or an honest proof re-targeted by 2^100"),
 "C19-u1": ("per-draw ChaCha20 keyed from a process-wide static instead of thread_rng (src/utils/random.rs)", "two processes related by fork() after the first draw present the same credential: identical blinders"),
 "C19-u2": ("all-hidden fast path draws the blinders of s_5 with lm bits (src/cl03/sigma_protocols.rs)", "a presentation that hides every attribute"),
}
confirm = {}
for l in open(f"{SRC}/CONFIRM.tsv"):
    p = l.rstrip("\n").split("\t")
    if len(p) >= 4: confirm[p[0]] = p[1:]
sens = {}
for fn in ("/tmp/sens8.log", "/tmp/sens8b.log", "/tmp/sens8c.log"):
    try:
        for l in open(fn, errors="replace"):
            m = re.match(r"^(C\d+-u\d) (C\d+) exit=(\d+) ?(.*)$", l.strip())
            if m: sens.setdefault(m.group(1), {}).setdefault(m.group(2), []).append({"exit": int(m.group(3)), "violation_keys": m.group(4)[:500]})
    except FileNotFoundError: pass
for name, (what, needs) in sorted(NEEDS8.items()):
    pid, m = name.split("-")
    d = f"{SRC}/{pid}/m{m[1:]}"
    if not os.path.exists(f"{d}/patch.diff"): print("missing", d); continue
    out = f"/verif/seeded/{name}"
    os.makedirs(out, exist_ok=True)
    for f in ("patch.diff", "demo.rs", "notes.md"):
        if os.path.exists(f"{d}/{f}"): shutil.copy(f"{d}/{f}", f"{out}/{f}")
    meta = {
        "breaks_property": pid, "round": 8, "change": what, "needs_to_manifest": needs,
        "base_commit": "0c23fa0 (final tree)",
        "origin": "written by a sub-agent that saw only the text of the property, the ideas of rounds 1-7 and its own scratch worktree",
        "confirmed_in_scratch_worktree": {"results": confirm.get(f"{pid}-m{m[1:]}", [])},
        "checks_run_against_it": "scripts/selftest_sensitivity.sh (scratch worktree of /repo, engines rebuilt against it, quick tier); runs listed in order, the last one is the final harness",
        "own_and_extra_checks": sens.get(name, {}),
    }
    json.dump(meta, open(f"{out}/meta.json", "w"), indent=1)
print("seeded dirs:", len(os.listdir("/verif/seeded")))
