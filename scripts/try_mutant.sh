#!/bin/bash
# Apply one seeded change to /repo, run the given checks (quick tier), undo it.
#   scripts/try_mutant.sh <dir with patch.diff> <results.tsv> <check ids...>
# Evidence and replays of these runs go to a scratch directory, never to /verif.
set -u
D=$1; OUT=$2; shift 2
name=$(echo "$D" | sed 's|.*/\(C[0-9]*\)/\(m[0-9]*\)/*$|\1-\2|')
SCR=/tmp/mutverif/$name
mkdir -p $SCR
cp /verif/known_findings.txt $SCR/
if ! git -C /repo diff --quiet; then echo "$name: /repo is dirty, refusing" >&2; exit 2; fi
if ! git -C /repo apply "$D/patch.diff"; then echo -e "$name\tAPPLY-FAILED" >> $OUT; exit 1; fi
for c in "$@"; do
  ZKSIM_VERIF_DIR=$SCR timeout 900 /verif/zk check $c > $SCR/$c.log 2>&1
  rc=$?
  keys=$(grep -E '^violation: ' $SCR/$c.log | sed 's/^violation: //; s/ :: .*//' | sort -u | tr '\n' ';')
  more=$(grep -E 'further distinct violation keys' $SCR/$c.log | sed 's/.*minimised: //' | cut -c1-300)
  echo -e "$name\t$c\texit=$rc\t$keys$more" >> $OUT
done
git -C /repo checkout -- . && git -C /repo clean -fdq src tests 2>/dev/null
