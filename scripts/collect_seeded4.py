#!/usr/bin/env python3
"""Round 4 of the seeded changes (/tmp/mutout4; sub-agents were given the property, the list of ideas
rounds 1-3 had used, and the instruction to aim at what a simulation-based checker is likely to
overlook) -> /verif/seeded/Cxx-q1|q2 with a meta.json each."""
import json, os, shutil
SRC = "/tmp/mutout4"
NEEDS4 = {
 "C02-q1": ("B = P1 + Q1*domain + sum H_i*m_i staged in a 128-slot stack buffer that needs L + 1 slots (src/bbsplus/signature.rs)", "exactly 128 messages and an edit of the LAST message"),
 "C02-q2": ("headers longer than 4096 octets replaced by a 48-octet digest in the domain pre-image (src/utils/util.rs)", "a header > 4096 octets; the signature also verifies under header' = that digest (needs the derivation; every generic header edit is still rejected)"),
 "C04-q1": ("Fiat-Shamir input assembled in a 4096-octet stack buffer through io::Write for &mut [u8], which truncates silently (src/bbsplus/proof.rs)", "a presentation header longer than ~3.8 KiB edited in its tail, or ~90+ disclosed messages"),
 "C04-q2": ("lists of >= 256 messages hashed on 4 scoped threads in blocks of len/4; the len % 4 trailing messages are never hashed (src/utils/message.rs)", ">= 256 disclosed messages, count not a multiple of 4, edit in the tail"),
 "C06-q1": ("ZKPoK::from_bytes parses at most 128 responses with take(count) (src/bbsplus/proof.rs)", "a commitment over exactly 128 committed messages extended by whole scalars"),
 "C06-q2": ("commitment point decoded with from_compressed_unchecked (src/bbsplus/commitment.rs)", "a crafted commitment C + T (T of order 3) with a proof ground until the challenge kills c*T"),
 "C08-q1": ("JSON public keys: 384-character strings go to G2Affine::from_uncompressed_hex, which asserts on non-hex bytes (src/utils/util.rs)", "a JSON string of exactly 384 bytes with a non-hex byte"),
 "C08-q2": ("proof_verify_init fused into one pass that assumes an ascending duplicate-free merged index list (src/bbsplus/proof.rs)", "blind_proof_verify with a signer index colliding with / beyond a shifted commitment index: m_cap indexed out of bounds"),
 "C09-q1": ("from_coordinates uses from_uncompressed_unchecked + is_on_curve (src/utils/util.rs)", "coordinates of a curve point outside the prime-order subgroup"),
 "C09-q2": ("PublicKey::from_bytes dispatches on length and accepts the 192-octet x || y form (src/bbsplus/keys.rs)", "the uncompressed encoding fed to the octet decoder"),
 "C12-q1": ("single-generator derivation whose chain counter is written as one byte (src/bbsplus/generators.rs, signature.rs)", "update_index >= 254 (L >= 255)"),
 "C12-q2": ("thread-local memo of the last update served, keyed without the old value (src/bbsplus/signature.rs)", "two consecutive updates of the same (signature, index, new value) that differ in the stated old value"),
 "C13-q1": ("e-th root taken modulo phi(N)/4 (src/cl03/signature.rs)", "bases (or b, c) that are units but not quadratic residues: public tuple struct, e.g. small primes"),
 "C13-q2": ("disclose_selectively rewrites hidden bases in place (src/cl03/signature.rs)", "a hidden-position list with a repeated position"),
 "C14-q1": ("process-wide memo of accepted (proof, statement) digests over an unseparated concatenation of decimal strings (src/cl03/proof.rs)", "after an honest accept, a replay with digits shifted between two adjacent fields (C | C_trusted, last base | U)"),
 "C14-q2": ("link-proof challenge compared as minimal big-endian digits (src/cl03/sigma_protocols.rs)", "an honest issuance proof with a trusted-party commitment whose challenge has a leading zero octet (1 in 256)"),
 "C15-q1": ("thread-local cache of 1/b, 1/g_0, 1/h keyed by (N, g_0, h) without b (src/cl03/sigma_protocols.rs)", "right after an honest verification on the same thread, the same proof with a signer key that differs in b only"),
 "C15-q2": ("range proof on e verified modulo the signer's N instead of the commitment key's (src/cl03/proof.rs)", "nothing hidden and a commitment key that differs in N only"),
 "C16-q1": ("decomposition checked by multiplication instead of division (src/cl03/range_proof.rs)", "E_a_2 or E_b_2 replaced by the value plus a multiple of n"),
 "C16-q2": ("copy/paste slip in the retry branch of the prover's randomness split (src/cl03/range_proof.rs)", "a b-side retry: probability |r| / (2^41 n), i.e. commitment randomness from Boudot's full range"),
 "C17-q1": ("nonce of the per-attribute proof derived RFC 6979 style from (m, g, h, C) (src/cl03/sigma_protocols.rs)", "a dictionary attack that recomputes the nonce for each candidate: needs the derivation formula"),
 "C17-q2": ("second randomness split of the tolerance proof replaced by the negation of the first (src/cl03/range_proof.rs)", "E_a_1 * E_b_1 and E_a_2 * E_b_2 lose their h-part: a function of the attribute and the range"),
 "C19-q1": ("the two issuance sub-proofs share one first move (src/cl03/sigma_protocols.rs, proof.rs)", "issuance with a trusted-party commitment: (d_1 - s2) / (c1 - c2) = r_C, (d[k] - s1[k]) / (c1 - c2) = m_k"),
 "C19-q2": ("per-thread ChaCha20 keyed per process with the process id as stream (src/utils/random.rs)", "two fresh threads presenting the same credential draw the same blinders"),
}
confirm = {}
for l in open(f"{SRC}/CONFIRM.tsv"):
    p = l.rstrip("\n").split("\t")
    if len(p) >= 4: confirm[p[0]] = p[1:]
def load(files):
    out = {}
    for fn in files:
        try:
            for l in open(fn, errors="replace"):
                p = l.rstrip("\n").split("\t")
                if len(p) >= 3: out.setdefault(p[0], {})[p[1]] = {"exit": p[2].replace("exit=", ""), "violation_keys": (p[3] if len(p) > 3 else "")[:600]}
        except FileNotFoundError: pass
    return out
before = load(["/tmp/try4.tsv"])
after = load(["/tmp/try4.tsv", "/tmp/try4b.tsv", "/tmp/try4c.tsv", "/tmp/try4d.tsv", "/tmp/try4e.tsv", "/tmp/try4f.tsv", "/tmp/try4g.tsv", "/tmp/try4h.tsv"])
for name, (what, needs) in sorted(NEEDS4.items()):
    pid, m = name.split("-")
    d = f"{SRC}/{pid}/m{m[1:]}"
    if not os.path.exists(f"{d}/patch.diff"): print("missing", d); continue
    out = f"/verif/seeded/{name}"
    os.makedirs(out, exist_ok=True)
    for f in ("patch.diff", "demo.rs", "notes.md"):
        if os.path.exists(f"{d}/{f}"): shutil.copy(f"{d}/{f}", f"{out}/{f}")
    k = f"{pid}-m{m[1:]}"
    meta = {
        "breaks_property": pid, "round": 4, "change": what, "needs_to_manifest": needs,
        "base_commit": "1fc4a2c (patches apply to the final tree; C15-q1 was rebased by hand over fix 3083a00)",
        "origin": "written by a sub-agent that saw only the text of the property, the ideas of rounds 1-3 and its own scratch worktree; told to aim at what a simulation-based checker overlooks",
        "confirmed_in_scratch_worktree": {"results": confirm.get(k, [])},
        "checks_run_against_it": "scripts/try_mutant.sh (git -C /repo apply; ./zk check <ID>, quick tier; git -C /repo checkout -- .)",
        "checks_before_round4_strengthening": before.get(k, {}),
        "checks_final": after.get(k, {}),
    }
    json.dump(meta, open(f"{out}/meta.json", "w"), indent=1)
print("seeded dirs:", len(os.listdir("/verif/seeded")))
