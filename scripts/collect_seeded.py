#!/usr/bin/env python3
"""Copies the confirmed seeded changes from the sub-agents' output directory into /verif/seeded/
with a meta.json each (property, what the change needs in order to manifest, what was run)."""
import json, os, shutil, sys, re
SRC = sys.argv[1] if len(sys.argv) > 1 else "/tmp/mutout"
NEEDS = {
 "C01-m1": ("verifier-side generator cache keyed by count only and shared by both ciphersuites (src/bbsplus/generators.rs, signature.rs)", "two verifications with the SAME message count under DIFFERENT ciphersuites on one thread"),
 "C01-m2": ("core_sign sums messages in chunks_exact(32) and drops the remainder (src/bbsplus/signature.rs)", "a message count L >= 32 with L % 32 != 0"),
 "C02-m1": ("per-thread generator cache that extends itself by restarting the derivation at index 1 (src/bbsplus/generators.rs)", "a shorter message list followed by a longer one on the same thread; then swapping the two messages that share a generator still verifies"),
 "C02-m2": ("parse_g1_projective forces the compression flag bit (src/utils/util.rs)", "exactly one of the 640 single-bit flips of a signature (top bit of octet 0)"),
 "C03-m1": ("thread-local cache of the longest generator list returned whole (src/bbsplus/generators.rs)", "a core operation with L1 messages followed by one with fewer messages, same suite, same thread"),
 "C03-m2": ("production random scalars expanded from one seed by a single expand_message call (src/utils/util.rs, proof.rs, commitment.rs)", ">= 166 undisclosed messages (SHA-256 suite) or >= 1361 (SHAKE-256): proof_gen panics"),
 "C04-m1": ("G1 decoding without the subgroup check (from_compressed_unchecked, src/utils/util.rs)", "an adversarial proof with Abar = Bbar = a point of small order (pairing check void), D = k*Bv, responses cancelling the challenge"),
 "C04-m2": ("verifier-side last-value domain cache keyed by pk, L, api_id but not the header (src/bbsplus/proof.rs)", "one thread verifies a proof under header H1 and then the same proof under H2 with the same key and L"),
 "C05-m1": ("calculate_b checks B == identity before adding P1 (src/bbsplus/blind.rs)", "blind_sign with no commitment AND zero signer messages"),
 "C05-m2": ("prover-side domain memo keyed by public key and header only (src/bbsplus/proof.rs)", "a second (blind) proof on the same thread under the same key and header for a credential of another shape"),
 "C06-m1": ("thread-local set of already validated commitment octets, not keyed by ciphersuite (src/bbsplus/commitment.rs)", "an honest request on suite A followed by a replay of the same octets to a suite-B signer on the same thread"),
 "C06-m2": ("blind_proof_verify sorts (index, message) pairs and de-duplicates by index (src/bbsplus/proof.rs)", "a forged message appended for an already disclosed index, after the genuine pair"),
 "C07-m1": ("per-thread StdRng seeded from one process-wide seed (src/utils/util.rs)", "generations on two different threads of one process"),
 "C07-m2": ("block of 32 random scalars that is never refilled (src/utils/util.rs)", "one generation needing more than 32 random scalars (U >= 28 hidden messages or M >= 31 committed messages)"),
 "C08-m1": ("proof_verify_init range-checks only the last disclosed index (src/bbsplus/proof.rs)", "blind_proof_verify with a valid commitment index plus a signer index >= U + R: index out of bounds panic"),
 "C08-m2": ("blind_proof_gen drops the commitment-index range check (src/bbsplus/proof.rs)", "a commitment index j with j + L + 1 overflowing usize"),
 "C09-m1": ("per-thread memo of the last decoded public key, hit test on a zipped prefix (src/bbsplus/keys.rs)", "after a successful decode of pk on the thread, any prefix (incl. empty) or extension of pk decodes"),
 "C09-m2": ("identity fast path in parse_g1_projective that masks the sort flag (src/utils/util.rs)", "the 48-octet pattern e0 00..00 in the commitment codec"),
 "C10-m1": ("static generator cache inside the generic create_generators keyed by api_id only (src/bbsplus/generators.rs)", "the same api_id (e.g. none/custom) used with both ciphersuites in one process"),
 "C10-m2": ("challenge omits the length prefix when the presentation header is absent (src/bbsplus/proof.rs)", "ph = None on one side and Some(empty) on the other (or the IETF fixture proof015 verified with None)"),
 "C11-m1": ("per-thread generator cache that re-derives all and appends without skipping the cached part (src/bbsplus/generators.rs)", "a growing sequence of requests for the same suite and api_id on one thread"),
 "C11-m2": ("deserialize_and_validate_commit returns early when the proof has no message responses (src/bbsplus/commitment.rs)", "a commitment over an EMPTY committed-message list replayed to the other ciphersuite"),
 "C12-m1": ("update_signature caches the longest generator list in a thread_local shared by both suites (src/bbsplus/signature.rs)", "an update under one suite followed by an update under the other suite on the same thread"),
 "C12-m2": ("out-of-range check off by one plus lazily sized generator list (src/bbsplus/signature.rs)", "update_index == n exactly"),
 "C13-m1": ("verify_multiattr range-checks only the last attribute (flag assigned instead of accumulated, src/cl03/signature.rs)", "n >= 2 and the out-of-range (shifted-by-e) attribute at a position other than the last"),
 "C13-m2": ("exponent bound merged into a helper that is always true (src/cl03/signature.rs)", "a crafted signature with e = 1 built from the public key alone, or an issued one rewritten as (1, v^e)"),
 "C14-m1": ("trusted-party base looked up by loop index instead of attribute position (src/cl03/sigma_protocols.rs)", "issuance WITH a trusted commitment and a hidden set that is not a prefix [0..k)"),
 "C14-m2": ("a missing C/C_trusted link proof skips the check instead of panicking (src/cl03/proof.rs)", "a ZKPoK built without the trusted part delivered to an issuer that holds the trusted commitment"),
 "C15-m1": ("verifier clamps the attribute count to the number of bases (src/cl03/sigma_protocols.rs)", "n' > n while the bases have exactly n entries"),
 "C15-m2": ("proof_of_square_a verified twice, proof_of_square_b never (src/cl03/range_proof.rs)", "any edit of F / challenge / d / d_1 / d_2 inside proof_of_square_b of an embedded range proof"),
 "C16-m1": ("binding of the proofs of square rejects only when BOTH sides mismatch (src/cl03/range_proof.rs)", "a proof where exactly one side (E_a_1 or E_b_1) is transplanted or altered"),
 "C16-m2": ("tolerance exponent rounded up in a shared helper (src/cl03/range_proof.rs)", "interval width with odd bit length and x = a-1 or b+1: the honest prover obtains an accepted proof"),
 "C17-m1": ("per-attribute commitment reuses C itself for single-attribute credentials (src/cl03/proof.rs)", "n = 1: the proof carries C together with its randomness r"),
 "C17-m2": ("off-by-one leaves the last hidden attribute blinded with itself (src/cl03/sigma_protocols.rs)", "hidden set contains position n-1: s_5[k] = m(1+c)"),
 "C18-m1": ("random_bits fills ceil(n/8) octets without masking the excess bits (src/utils/random.rs)", "a bit length that is not a multiple of 8 (le = 258)"),
 "C18-m2": ("safe-prime test applied to p' instead of p in the own-modulus commitment key (src/cl03/keys.rs)", "CL03CommitmentPublicKey::generate(None, _) only"),
 "C19-m1": ("hidden positions tracked in a 64-bit bitmap (src/cl03/sigma_protocols.rs)", "a credential with at least 65 attributes and a hidden attribute at position >= 64"),
 "C19-m2": ("256-bit mask for the trusted commitment's randomness (src/cl03/sigma_protocols.rs)", "issuance with a trusted commitment: floor(d_2 / c) is the 1024-bit opening randomness"),
}
confirm = {}
try:
    for l in open(f"{SRC}/CONFIRM.tsv"):
        p = l.rstrip("\n").split("\t")
        if len(p) >= 4: confirm[p[0]] = p[1:]
except FileNotFoundError: pass
results = {}
for fn in ("RESULTS.tsv", "RESULTS2.tsv"):
    try:
        for l in open(f"{SRC}/{fn}"):
            p = l.rstrip("\n").split("\t")
            if len(p) >= 3: results.setdefault(p[0], {})[p[1]] = (p[2], p[3] if len(p) > 3 else "")
    except FileNotFoundError: pass
for name, (what, needs) in sorted(NEEDS.items()):
    pid, m = name.split("-")
    d = f"{SRC}/{pid}/{m}"
    if not os.path.exists(f"{d}/patch.diff"): continue
    out = f"/verif/seeded/{name}"
    os.makedirs(out, exist_ok=True)
    shutil.copy(f"{d}/patch.diff", f"{out}/patch.diff")
    shutil.copy(f"{d}/demo.rs", f"{out}/demo.rs")
    if os.path.exists(f"{d}/notes.md"): shutil.copy(f"{d}/notes.md", f"{out}/notes.md")
    det = {c: {"exit": e, "violation_keys": k} for c, (e, k) in sorted(results.get(name, {}).items())}
    meta = {
        "breaks_property": pid,
        "change": what,
        "needs_to_manifest": needs,
        "base_commit": "b3ccb8b (BBS changes) / 993d6f1 (CL03 changes); every patch still applies to the final tree",
        "origin": "written by a sub-agent that saw only the text of the property and its own scratch worktree",
        "confirmed_in_scratch_worktree": {"command": "cargo test --offline --test demo (clean) / git apply patch.diff; cargo test --offline --lib [; cargo test --release --lib cl1024 through the shadow package]; cargo test --offline --test demo", "results": confirm.get(name, [])},
        "checks_run_against_it": "git -C /repo apply patch.diff; ./zk check <ID> (quick tier, VERIF_SEED default); git -C /repo checkout -- .",
        "detected_by": sorted(c for c, v in det.items() if v["exit"] == "exit=1"),
        "per_check": det,
    }
    json.dump(meta, open(f"{out}/meta.json", "w"), indent=1)
print("collected", len(os.listdir("/verif/seeded")))
NEEDS2 = {
 "C01-n1": ("from_bytes fast-rejects e when its top octet is >= 0x73 instead of > 0x73 (src/bbsplus/signature.rs)", "a signature whose e has top octet 0x73 (~0.8 % of signatures): the 80-octet round trip fails"),
 "C01-n2": ("verify(None messages) takes a shortcut that hashes the domain without the api_id (src/bbsplus/signature.rs)", "verify with an ABSENT message list (Some(empty) is fine)"),
 "C02-n1": ("plain verify falls back to the blind interface when the plain check fails (src/bbsplus/signature.rs)", "a signature issued through blind_sign without commitment, verified through the plain interface"),
 "C02-n2": ("e decoded with CtOption::unwrap (src/bbsplus/signature.rs)", "a bit flip that makes e >= r (top bit of octet 48): panic instead of Err"),
 "C03-n1": ("hoisted L.checked_sub(1) rejects the empty message vector in core_proof_gen (src/bbsplus/proof.rs)", "L = 0"),
 "C03-n2": ("serde skip_serializing_if on m_cap without default (src/bbsplus/proof.rs)", "U = 0 AND a serde round trip of the proof"),
 "C04-n1": ("identity checks of Abar/Bbar/D combined with & instead of | (src/bbsplus/proof.rs)", "the degenerate forgery Abar = Bbar = identity, D = Bv"),
 "C04-n2": ("two sites: length check removed in challenge calculation, != weakened to < in verify init (src/bbsplus/proof.rs)", "more disclosed messages than indexes: the surplus is ignored"),
 "C05-n1": ("commitment-index range check compares with L instead of M (src/bbsplus/proof.rs)", "L < M and a disclosed committed index j >= L"),
 "C05-n2": ("verify_blind_sign defaults committed messages and blind factor as a pair (src/bbsplus/blind.rs)", "committed_messages = None together with Some(blind)"),
 "C06-n1": ("early Ok when the commitment point is the identity (src/bbsplus/commitment.rs)", "an adversarial commitment-with-proof: identity point followed by arbitrary scalars"),
 "C06-n2": ("an absent L is inferred from the highest disclosed index (src/bbsplus/proof.rs)", "L = None at the verifier for a proof over L > 0 messages with the last one disclosed"),
 "C07-n1": ("commit(None) forwards None and core_commit then uses a zero blind (src/bbsplus/commitment.rs, two sites)", "Commitment::commit(None) only"),
 "C07-n2": ("thread-local generator cloned from one process-wide root generator (src/utils/util.rs)", "two threads each drawing scalars"),
 "C08-n1": ("saturating_sub instead of checked_sub for M in blind_proof_verify (src/bbsplus/proof.rs)", "L = usize::MAX (overflow) or L >= U + R with no commitment indexes (L + 2 generators)"),
 "C08-n2": ("two sites: membership table in get_remaining_indexes, called before the range check (src/utils/util.rs, proof.rs)", "a disclosed index >= U + R"),
 "C09-n1": ("proof length check `& 0x0f` instead of `% 32` (src/bbsplus/proof.rs)", "a proof extended or truncated by exactly 16 or 48 octets"),
 "C09-n2": ("secret key decoded with from_okm (reduces mod r) (src/bbsplus/keys.rs)", "a 32-octet secret key string with value >= r"),
 "C10-n1": ("DST limit 256 instead of 255 in hash_to_scalar (src/utils/util.rs)", "a DST of exactly 256 octets"),
 "C10-n2": ("ScalarExt::from_bytes_be built on Scalar::from_raw (always Some, reduces) (src/utils/util.rs)", "an artefact with one scalar re-encoded as x + r"),
 "C11-n1": ("api_id clamped to 236 octets in create_generators (src/bbsplus/generators.rs)", "two api_ids longer than 236 octets sharing their first 236"),
 "C11-n2": ("prepare_parameters passes an absent api_id through, losing the BLIND_ prefix (src/bbsplus/blind.rs)", "prepare_parameters(.., api_id = None)"),
 "C12-n1": ("identity guard tests the increment instead of the new A (src/bbsplus/signature.rs)", "an update whose new value equals the signed value"),
 "C12-n2": ("empty old/new values skip their term (src/bbsplus/signature.rs)", "an update to or from the empty message"),
 "C13-n1": ("secure_pow_mod for attribute exponents (src/cl03/signature.rs)", "an attribute equal to 0: sign panics"),
 "C13-n2": ("minimum-length guard in Signature::from_bytes (src/cl03/signature.rs)", "a signature whose v has a leading zero octet (about 1 in 600)"),
 "C14-n1": ("`continue` before index += 1 when a revealed attribute is 0 (src/cl03/commitment.rs)", "a revealed attribute 0 followed by a non-zero revealed attribute"),
 "C14-n2": ("zip over the per-attribute proof arrays in verify_proof (src/cl03/proof.rs)", "an adversarially shortened ZKPoK (sub-proof arrays with fewer entries than hidden positions)"),
 "C15-n1": ("zip over the per-attribute arrays in proof_verify (src/cl03/proof.rs)", "shortened sub-proof arrays, or a hidden list with a duplicate / an index beyond n"),
 "C15-n2": ("revealed responses precomputed, missing ones contribute nothing (src/cl03/sigma_protocols.rs)", "n' = n + 1 or n + 2 with enough bases"),
 "C16-n1": ("large-interval proof compares C mod 2^128 only (src/cl03/range_proof.rs)", "an edit of proof_large_i_{a,b}.C that keeps its low 128 bits"),
 "C16-n2": ("thread-local cache of the enlarged bounds keyed by (width, T) without rmin (src/cl03/range_proof.rs)", "two range-proof operations on one thread over different intervals of equal width"),
 "C17-n1": ("per-attribute commitments of the signature proof share one randomness (src/cl03/commitment.rs, proof.rs)", "two or more hidden attributes in a presentation"),
 "C17-n2": ("vec![random_bits(..); k]: one nonce for all hidden attributes in the C/C_trusted link proof (src/cl03/sigma_protocols.rs)", "trusted-party issuance with two or more hidden attributes"),
 "C18-n1": ("minimum-length guard in Signature::from_bytes (src/cl03/signature.rs)", "a signature whose v has a leading zero octet"),
 "C18-n2": ("own-modulus primes drawn with ln/2 - 1 bits (src/cl03/keys.rs)", "CL03CommitmentPublicKey::generate(None, _): N has 1023/1024 bits"),
 "C19-n1": ("blinder of a hidden attribute sized bits(m) + lin (src/cl03/sigma_protocols.rs)", "a SHORT hidden attribute (0, 42, a timestamp)"),
 "C19-n2": ("r_4 reuses r_5[0] (src/cl03/sigma_protocols.rs)", "position 0 not hidden: s_4 = m_0 + e*c"),
}
SRC2 = "/tmp/mutout2"
confirm2 = {}
try:
    for l in open(f"{SRC2}/CONFIRM.tsv"):
        p = l.rstrip("\n").split("\t")
        if len(p) >= 4: confirm2[p[0]] = p[1:]
except FileNotFoundError: pass
sens = {}
for fn, tag in (("/tmp/sens2.log", "harness before the round-2 strengthenings"), ("/tmp/sens2b.log", "final harness")):
    try:
        for l in open(fn, errors="replace"):
            m = re.match(r"^(C\d+-n\d) (C\d+) exit=(\d+) ?(.*)$", l.strip())
            if m: sens.setdefault(m.group(1), {})[tag] = {"check": m.group(2), "exit": int(m.group(3)), "violation_keys": m.group(4)}
    except FileNotFoundError: pass
for name, (what, needs) in sorted(NEEDS2.items()):
    pid, m = name.split("-")
    d = f"{SRC2}/{pid}/m{m[1:]}"
    if not os.path.exists(f"{d}/patch.diff"): continue
    out = f"/verif/seeded/{name}"
    os.makedirs(out, exist_ok=True)
    for f in ("patch.diff", "demo.rs", "notes.md"):
        if os.path.exists(f"{d}/{f}"): shutil.copy(f"{d}/{f}", f"{out}/{f}")
    meta = {
        "breaks_property": pid, "round": 2, "change": what, "needs_to_manifest": needs,
        "base_commit": "622ac12 (final tree)",
        "origin": "written by a sub-agent that saw only the text of the property, its own scratch worktree and a list of first-round ideas to avoid",
        "confirmed_in_scratch_worktree": {"results": confirm2.get(f"{pid}-m{m[1:]}", [])},
        "checks_run_against_it": "scripts/selftest_sensitivity.sh (scratch worktree of /repo, engines rebuilt against it, own property's check, quick tier)",
        "own_check": sens.get(name, {}),
    }
    json.dump(meta, open(f"{out}/meta.json", "w"), indent=1)
print("collected incl. round 2:", len(os.listdir("/verif/seeded")))

