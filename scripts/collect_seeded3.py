#!/usr/bin/env python3
"""Round 3 of the seeded changes (/tmp/mutout3, sub-agents briefed towards shared mutable state and
towards the corners the first two rounds left) -> /verif/seeded/Cxx-p1|p2 with a meta.json each."""
import json, os, shutil, re
SRC = "/tmp/mutout3"
NEEDS3 = {
 "C01-p1": ("process-wide generator table grown under a lock but published from a stale snapshot (src/bbsplus/generators.rs)", "two threads inside sign/verify at the same time with different message counts beyond the cached length"),
 "C01-p2": ("lists of >= 64 messages hashed on scoped worker threads; a process-wide worker budget (AtomicUsize) can grant zero workers, and then chunks stay unhashed (src/utils/message.rs)", "two sign or verify calls with >= 64 messages overlapping in real time"),
 "C03-p1": ("generator cache per (suite, api_id) grown in blocks of 32; the write-back appends from the length read under an earlier lock (src/bbsplus/generators.rs)", "two threads, same suite, counts that round to different block boundaries (3 vs 40 messages): every later proof over >= 32 messages fails"),
 "C03-p2": ("production random scalars staged in one static buffer filled and consumed under separate locks (src/utils/util.rs)", "two threads overlapping in the draw phase of proof_gen: zero scalars, proof_gen fails or the proof does not verify"),
 "C05-p1": ("generators memoised per (suite, api_id) behind Arc<Mutex>; extensions snapshot, unlock, compute and write back unconditionally (src/bbsplus/generators.rs)", "two calls extending the same key at the same time (different counts beyond 32)"),
 "C05-p2": ("sums of >= 64 terms cut into 4 slices on scoped worker threads that push partial sums into one static scratch vector (src/bbsplus/proof.rs)", "two proof generations / verifications with >= 64 terms overlapping in real time"),
 "C07-p1": ("one process-wide StdRng that is checked out, used outside the lock and checked back in (src/utils/util.rs)", "two threads drawing at the same time: lost update, the same scalars are handed out twice"),
 "C07-p2": ("KeyPair::random keeps its keying material in one shared buffer filled, read back and wiped in three critical sections (src/bbsplus/keys.rs)", "two threads generating random keys at the same time: identical (or all-zero-IKM) secret keys"),
 "C10-p1": ("generator cache: extensions by more than 32 are computed on a private copy and merged back without re-checking the cached length (src/bbsplus/generators.rs)", "a long create_generators overlapped with any call growing the same (suite, api_id) entry"),
 "C10-p2": ("ring of the 8 most recently prepared issuer keys; the slot index is taken at the start of ProofVerify and read back unchecked before the pairing (src/bbsplus/proof.rs)", "one proof verification parked between the two steps while >= 8 verifications under other keys run: honest proof rejected / proof made with the attacker's secret accepted"),
 "C11-p1": ("single process-wide generator memo; the publish step re-validates the length but not the (suite, api_id) key (src/bbsplus/generators.rs)", "a large request overlapped with a request under another api_id: the other api_id is then served this one's generators"),
 "C11-p2": ("blind generator table extended from a stale snapshot offset under a RwLock (src/bbsplus/blind.rs, commitment.rs)", "two blind-interface calls needing more than 32 blind generators with different rounded targets: J_1..J_64 appended twice"),
 "C13-p1": ("disclose_selectively looks hidden positions up with binary_search (src/cl03/signature.rs)", "a hidden-position list that is not ascending ([1,0], [2,4,0,3,1])"),
 "C13-p2": ("verify_multiattr takes |m_i| before the range check (src/cl03/signature.rs)", "the shift-by-e forgery with a NEGATIVE attribute m_i - k*e"),
 "C14-p1": ("extend_commitment_with_pk sorts the revealed positions but not the revealed attributes (src/cl03/commitment.rs)", "revealed positions listed in non-ascending order with distinct attributes"),
 "C14-p2": ("first message t left out of the Fiat-Shamir hash of the multi-secret proof, prover and verifier alike (src/cl03/sigma_protocols.rs)", "a SIMULATED transcript (responses first, t solved afterwards) for a commitment with unknown opening"),
 "C15-p1": ("signature-proof challenge compared as minimal big-endian digits against the 32 digest octets (src/cl03/sigma_protocols.rs)", "an honest proof whose challenge has a leading zero octet (one in 256)"),
 "C15-p2": ("s_2 dropped from one of the five recomputed commitments hashed into the challenge (src/cl03/sigma_protocols.rs)", "an edit of spok.s_2"),
 "C16-p1": ("proof_ss challenge no longer covers d_1 (src/cl03/range_proof.rs)", "an edit of proof_of_square_{a,b}.proof_ss.d_1"),
 "C16-p2": ("panic-free isqrt clamps negative operands to 0 (src/cl03/range_proof.rs)", "the honest prover called with a value just outside [a, b] obtains an accepted proof; far outside, its retry loop never ends"),
 "C17-p1": ("blinders of the multi-secret proof stored by attribute position but read by cursor (src/cl03/sigma_protocols.rs)", "a hidden set that is not the ascending prefix [0..k): s1[k] = c * m_i exactly"),
 "C17-p2": ("single-value fast path of commit_with_commitment_pk forgets the final reduction mod N (src/cl03/commitment.rs)", "commitments to exactly one value: the integer is a multiple of g_i^m mod N (divisibility dictionary attack)"),
 "C18-p1": ("random_qr validates the root instead of the square (src/utils/random.rs)", "a root that is a square root of unity: only with small moduli (N = 77: 4 % of the draws)"),
 "C18-p2": ("rand_int draws from b - a + 2 values (src/utils/random.rs)", "narrow intervals / the degenerate interval [a, a]"),
 "C19-p1": ("blinder-vs-attribute decision of r_5 by a single-pass cursor over the hidden list (src/cl03/sigma_protocols.rs)", "a hidden list in non-ascending order: s_5[k] = m (1 + c)"),
 "C19-p2": ("mu_1, mu_2 of the C / C_trusted link proof sized from the moduli (src/cl03/sigma_protocols.rs)", "a trusted party's commitment key over a short modulus (< ~320 bits)"),
}
confirm = {}
for l in open(f"{SRC}/CONFIRM.tsv"):
    p = l.rstrip("\n").split("\t")
    if len(p) >= 4: confirm[p[0]] = p[1:]
def load(files):
    out = {}
    for fn in files:
        try:
            for l in open(fn, errors="replace"):
                p = l.rstrip("\n").split("\t")
                if len(p) >= 3: out[p[0]] = {"check": p[1], "exit": p[2].replace("exit=", ""), "violation_keys": (p[3] if len(p) > 3 else "")[:600]}
        except FileNotFoundError: pass
    return out
before = load(["/tmp/try3_before.tsv"])
after = load(["/tmp/try3_after.tsv"])
for name, (what, needs) in sorted(NEEDS3.items()):
    pid, m = name.split("-")
    d = f"{SRC}/{pid}/m{m[1:]}"
    if not os.path.exists(f"{d}/patch.diff"): print("missing", d); continue
    out = f"/verif/seeded/{name}"
    os.makedirs(out, exist_ok=True)
    for f in ("patch.diff", "demo.rs", "notes.md"):
        if os.path.exists(f"{d}/{f}"): shutil.copy(f"{d}/{f}", f"{out}/{f}")
    k = f"{pid}-m{m[1:]}"
    meta = {
        "breaks_property": pid, "round": 3, "change": what, "needs_to_manifest": needs,
        "base_commit": "f70dec5 (patches apply to the final tree)",
        "origin": "written by a sub-agent that saw only the text of the property and its own scratch worktree; briefed towards process-wide state / library-internal threads (BBS) and towards the corners rounds 1-2 left (CL03)",
        "confirmed_in_scratch_worktree": {"results": confirm.get(k, [])},
        "checks_run_against_it": "scripts/try_mutant.sh (git -C /repo apply; ./zk check <own ID>, quick tier; git -C /repo checkout -- .)",
        "own_check_before_round3_strengthening": before.get(k, {}),
        "own_check_final": after.get(k, {}),
    }
    json.dump(meta, open(f"{out}/meta.json", "w"), indent=1)
print("seeded dirs:", len(os.listdir("/verif/seeded")))
