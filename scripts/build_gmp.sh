#!/bin/bash
# Build GMP 6.3.0 (the copy bundled in the cached gmp-mpfr-sys crate) into /verif/build/gmp.
# The sandbox has no m4 and the system GMP is 6.2.1 while gmp-mpfr-sys 1.7.1 insists on
# >= 6.3.0; with --disable-assembly no .asm file is preprocessed, so a stub m4 that only
# answers configure's probe is enough (DESIGN.md §9).
set -e
V=/verif
SRC=$(ls -d $HOME/.cargo/registry/src/*/gmp-mpfr-sys-1.7.1/gmp-6.3.0-c | head -1)
[ -d "$SRC" ] || { echo "gmp source not found in the cargo cache" >&2; exit 2; }
W=$(mktemp -d /tmp/zk-gmp-build.XXXXXX)
trap 'rm -rf "$W"' EXIT
mkdir -p $W/bin $W/src
cat > $W/bin/m4 <<'M4'
#!/bin/sh
cat >/dev/null
echo good
M4
chmod +x $W/bin/m4
cp -r "$SRC"/. $W/src/
chmod -R u+w $W/src
cd $W/src
PATH=$W/bin:$PATH ./configure --disable-assembly --disable-shared --enable-static --with-pic --prefix=$V/build/gmp >$W/configure.log 2>&1 || { tail -30 $W/configure.log >&2; exit 2; }
PATH=$W/bin:$PATH make -j16 >$W/make.log 2>&1 || { tail -30 $W/make.log >&2; exit 2; }
PATH=$W/bin:$PATH make install >$W/install.log 2>&1 || { tail -30 $W/install.log >&2; exit 2; }
ls -la $V/build/gmp/lib/libgmp.a
