#!/bin/bash
# Sensitivity self-test (DESIGN.md §8, §10.6): every seeded change under <dir> (default
# /verif/seeded) is applied to a scratch worktree of /repo OUTSIDE /repo and /verif, the two
# engines are rebuilt against it, and the check of the property it breaks must exit 1; on the
# unmodified scratch tree the same checks must exit 0.  Nothing in /repo is touched; the
# scratch directory is removed at the end.
#   scripts/selftest_sensitivity.sh [dir] [name-filter-regex] [extra check ids to run on every change...]
set -u
V=/verif
DIR=${1:-$V/seeded}; FILTER=${2:-.}; shift 2 2>/dev/null || true
EXTRA="$@"
S=$(mktemp -d /tmp/zk-sens.XXXXXX)
cleanup() { git -C /repo worktree remove --force $S/repo 2>/dev/null; rm -rf $S; git -C /repo worktree prune; }
trap cleanup EXIT
git -C /repo worktree add -q --detach $S/repo HEAD || exit 2
cp -r $V/sim/bbs $S/bbs; cp -r $V/sim/cl $S/cl; cp -r $V/sim/shadow $S/shadow; cp -r $V/sim/core $S/core   # a snapshot: later edits under /verif do not disturb a running self-test
rm -rf $S/bbs/target $S/cl/target
sed -i "s|path = \"/repo\"|path = \"$S/repo\"|" $S/bbs/Cargo.toml
sed -i "s|path = \"../shadow\"|path = \"$S/shadow\"|" $S/cl/Cargo.toml
sed -i "s|/repo/src/lib.rs|$S/repo/src/lib.rs|" $S/shadow/Cargo.toml
sed -i "s|/verif/build/target-bbs|$S/target-bbs|" $S/bbs/.cargo/config.toml
sed -i "s|/verif/build/target-cl|$S/target-cl|" $S/cl/.cargo/config.toml
mkdir -p $S/out; cp $V/known_findings.txt $S/out/
build() { # engine
  ( cd $S/$1 && cargo build --release --offline 2>$S/build-$1.log ) && return 0
  [ $1 = bbs ] && ( cd $S/$1 && cargo build --release --offline --no-default-features 2>$S/build-$1.log ) && { echo "(engine rebuilt without library-helpers)"; return 0; }
  tail -20 $S/build-$1.log; return 1
}
check() { # id -> exit code
  case $1 in C0*|C10|C11|C12) e=bbs;; *) e=cl;; esac
  : > $S/last.log
  build $e || return 2
  ZKSIM_VERIF_DIR=$S/out ZKSIM_REPO=$S/repo ZKSIM_SHIM=$V/build/libzkent.so timeout 1800 $S/target-$e/release/zksim-$e check $1 > $S/last.log 2>&1
}
fail=0; n=0; used=""
for d in $(ls -d $DIR/*/ | sort); do
  name=$(basename $d); echo "$name" | grep -Eq "$FILTER" || continue
  [ -f $d/patch.diff ] || continue
  own=$(echo $name | sed 's/-.*//')
  git -C $S/repo checkout -q -- . ; git -C $S/repo clean -fdq
  if ! git -C $S/repo apply $d/patch.diff 2>/dev/null; then echo "$name: patch does not apply to the current tree (skipped)"; continue; fi
  for c in $own $EXTRA; do
    check $c; rc=$?
    keys=$(grep -a -E '^violation: ' $S/last.log | sed 's/^violation: //; s/ :: .*//' | sort -u | head -4 | tr '\n' ';')
    echo "$name $c exit=$rc $keys"
    if [ $c = $own ]; then n=$((n+1)); used="$used $own"; [ $rc = 1 ] || fail=$((fail+1)); fi
  done
done
git -C $S/repo checkout -q -- . ; git -C $S/repo clean -fdq
for c in $(echo $used $EXTRA | tr ' ' '\n' | sort -u); do check $c; rc=$?; echo "control(unmodified) $c exit=$rc"; [ $rc = 0 ] || fail=$((fail+1)); done
echo "sensitivity: $n seeded changes, $fail failures (undetected changes or alarms on the unmodified tree)"
[ $fail = 0 ] && exit 0 || exit 2
