#!/usr/bin/env python3
"""Round 9 of the seeded changes (/tmp/seeded9, from /tmp/mutout9: C01, C03, C05, C07, C10, C11,
C17, C18) -> /verif/seeded/Cxx-v1|v2 with a meta.json each."""
import json, os, shutil, re
SRC = "/tmp/seeded9"
NEEDS9 = {
 "C01-v1": ("verify refuses headers longer than 65535 octets, sign does not (src/bbsplus/signature.rs)", "a header of 65536 octets or more"),
 "C01-v2": ("off-by-one in the overflow assertion of i2osp: the largest representable value is refused (src/utils/util.rs)", "a key_info of exactly 65535 octets: key generation panics"),
 "C03-v1": ("a generator-count hint (L + 1) kept in the proof object and serialized by serde (src/bbsplus/proof.rs)", "the serde form of a fresh proof (before any octet round trip) for two credentials of different size and equal U"),
 "C03-v2": ("per-thread scalar generator that drops one output when it reseeds after 2^20 outputs (src/utils/util.rs)", "one thread that has drawn 2^20 scalars"),
 "C05-v1": ("early-out of the scalar decoder rejects every encoding whose two leading octets are 0x73ed (src/utils/util.rs)", "an honest scalar in [0x73ed00.., r): 2.2e-5 of all scalars"),
 "C05-v2": ("debug_assert!(L + M < 100) in prepare_parameters (src/bbsplus/blind.rs)", "a build with debug assertions and L + M >= 100"),
 "C07-v1": ("no blinder for an undisclosed slot whose scalar is 0, production randomness path only (src/bbsplus/proof.rs)", "blind_proof_gen without prover blind on a blind signature issued without commitment"),
 "C07-v2": ("random scalars drawn from [0, 2^254) instead of Z_r (src/utils/util.rs)", "a statistical look at the fresh values: none reaches 2^254"),
 "C10-v1": ("KeyGen length check moved onto the assembled derive_input (src/bbsplus/keys.rs)", "key material shorter than 32 octets with a key_info that makes up the length"),
 "C10-v2": ("proof verification hashes at most R disclosed messages: surplus messages are ignored (src/bbsplus/proof.rs; rebased onto fix cb2ae51, where the length test of order_disclosed becomes one-sided)", "R indexes with R + k disclosed messages"),
 "C11-v1": ("the BLIND_ label applied idempotently by a new helper (src/bbsplus/blind.rs)", "prepare_parameters with an interface identifier that itself begins with BLIND_"),
 "C11-v2": ("absent or empty api_id falls back to the ciphersuite's API_ID (src/bbsplus/generators.rs)", "create(n, None) or create(n, \"\") against create(n, API_ID)"),
 "C17-v1": ("hidden-position bitmask of 64 bits in nisp5_MultiAttr_generate_proof (src/cl03/sigma_protocols.rs)", "a credential with more than 64 attributes and a hidden position >= 64"),
 "C17-v2": ("blinder of the larger-interval proof drawn as 2^T * rand (src/cl03/range_proof.rs)", "D_1 mod 2^T = x_a_2 * c: the omniscient checker recomputes the blinder of D_1 from the derived witness and finds it a multiple of 2^T"),
 "C18-v1": ("g_bases serialized as a JSON object keyed by position and read back through a BTreeMap<String, _> (src/cl03/keys.rs)", "a commitment key with 11 or more bases through any serde_json front end"),
 "C18-v2": ("retry loop of the commitment-key bases tests the exponent f instead of the power h^f (src/cl03/keys.rs)", "generate(Some(N), _) with a product of two small safe primes: g_i = 1 when f is a multiple of ord(h)"),
}
confirm = {}
for fn in ("/tmp/mutout9/CONFIRM.tsv", "/tmp/rebased/CONFIRM.tsv"):
    for l in open(fn):
        p = l.rstrip("\n").split("\t")
        if len(p) >= 4: confirm[p[0].replace("-m", "-v")] = p[1:]
sens = {}
for fn in ("/tmp/sens9.log", "/tmp/sens9b.log", "/tmp/sens9c.log", "/tmp/sens9t.log"):
    try:
        for l in open(fn, errors="replace"):
            m = re.match(r"^(C\d+-v\d) (C\d+) exit=(\d+) ?(.*)$", l.strip())
            if m: sens.setdefault(m.group(1), {}).setdefault(m.group(2), []).append({"log": os.path.basename(fn), "exit": int(m.group(3)), "violation_keys": m.group(4)[:500]})
    except FileNotFoundError: pass
for name, (what, needs) in sorted(NEEDS9.items()):
    pid = name.split("-")[0]
    d = f"{SRC}/{name}"
    if not os.path.exists(f"{d}/patch.diff"): print("missing", d); continue
    out = f"/verif/seeded/{name}"
    os.makedirs(out, exist_ok=True)
    for f in ("patch.diff", "demo.rs", "notes.md"):
        if os.path.exists(f"{d}/{f}"): shutil.copy(f"{d}/{f}", f"{out}/{f}")
    meta = {
        "breaks_property": pid, "round": 9, "change": what, "needs_to_manifest": needs,
        "base_commit": "4c621ce (final tree; written against 0c23fa0, all patches apply to 4c621ce, C10-v2 rebased)",
        "origin": "written by a sub-agent that saw only the text of the property, the ideas of rounds 1-8 and its own scratch worktree",
        "confirmed_in_scratch_worktree": {"results": confirm.get(name, [])},
        "checks_run_against_it": "scripts/selftest_sensitivity.sh (scratch worktree of /repo, engines rebuilt against it, quick tier unless the log name ends in t); runs listed in order, the last one is the final harness",
        "own_and_extra_checks": sens.get(name, {}),
    }
    json.dump(meta, open(f"{out}/meta.json", "w"), indent=1)
print("seeded dirs:", len(os.listdir("/verif/seeded")))
