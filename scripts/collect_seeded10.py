#!/usr/bin/env python3
"""Round 10 of the seeded changes (/tmp/seeded10, from /tmp/mutout10: C01, C03, C05, C07, C10, C11,
C17, C18) -> /verif/seeded/Cxx-w1|w2 with a meta.json each."""
import json, os, shutil, re
SRC = "/tmp/seeded10"
NEEDS10 = {
 "C02-w1": ("one trailing LF / CR LF stripped from the header before it enters the domain (src/utils/util.rs)", "header || \"\\n\" against header"),
 "C02-w2": ("a map_err closure of verify divides by messages.len() (src/bbsplus/signature.rs)", "a FAILED verification of an empty message list: panic instead of Err"),
 "C04-w1": ("order_disclosed sorts packed u64 keys (index << 32 | position): bits 32.. of an index are dropped (src/bbsplus/proof.rs)", "a disclosed index i + k * 2^32"),
 "C04-w2": ("proof decoder computes U by integer division and ignores 1..31 trailing octets (src/bbsplus/proof.rs)", "an honest proof followed by 1..31 octets"),
 "C06-w1": ("verify_blind_sign falls back to the plain interface when there is neither commitment nor blind factor (src/bbsplus/blind.rs)", "a plain signature re-read as a blind signature"),
 "C06-w2": ("commitment decoder strips trailing all-zero scalar blocks (src/bbsplus/commitment.rs)", "an honest commitment-with-proof extended by zero scalars"),
 "C08-w1": ("JSON scalar decoder splits its text at byte offset 2 (src/utils/util.rs)", "a string longer than 64 octets with a multi-octet character at offset 1"),
 "C08-w2": ("blind_proof_verify infers L = last index + 1 when L is absent (src/bbsplus/proof.rs)", "L = None with usize::MAX among the signer indexes: overflow"),
 "C09-w1": ("per-thread one-entry cache of the compressed A keyed by e in Signature::to_bytes (src/bbsplus/signature.rs)", "to_bytes of a signature, then to_bytes of its update_signature result on the same thread"),
 "C09-w2": ("secret-key decoder drops leading zero octets of an over-long input (src/bbsplus/keys.rs)", "00 || sk"),
 "C12-w1": ("update_signature returns early when old == new, before the range check (src/bbsplus/signature.rs)", "an out-of-range position with old value == new value"),
 "C12-w2": ("position and length narrowed to u32 in a new generator helper (src/bbsplus/generators.rs)", "update_index = k * 2^32 + j with j < n"),
 "C13-w1": ("zero attributes skipped before the bases are indexed (src/cl03/signature.rs)", "an attribute equal to 0 followed by others: the signature verifies for the shifted vector"),
 "C13-w2": ("exponent bound through significant_bits(), which ignores the sign (src/cl03/signature.rs; rebased onto fix 9be38ac)", "(-e, s, v^-1 mod N)"),
 "C14-w1": ("new range guard panics on a revealed attribute >= 2^lm - 1 (src/cl03/blind.rs)", "a revealed attribute equal to 2^256 - 1"),
 "C14-w2": ("length test of the link-proof responses loosened from != to < (src/cl03/proof.rs)", "proof_C_Ctrusted.d lengthened"),
 "C15-w1": ("range proof of a hidden attribute skipped when its opening response is short (src/cl03/proof.rs, sigma_protocols.rs)", "a hidden attribute below 2^128 and any edit of its range proof"),
 "C15-w2": ("verify_of_square takes E_a_1 / E_b_1 as an argument and no longer reads proof_of_square.E (src/cl03/range_proof.rs)", "proof_of_square_{a,b}.E +- 1 or 0"),
 "C16-w1": ("canonical test on F compares bit lengths (src/cl03/range_proof.rs)", "F + n for a modulus well below a power of two"),
 "C16-w2": ("scaling exponent T through an f64 in a shared helper (src/cl03/range_proof.rs)", "an interval 2^1024 or more wide: T collapses, out-of-range values prove"),
 "C19-w1": ("mem::take on the blinder of a hidden position (src/cl03/sigma_protocols.rs)", "a hidden-index list that names a position twice: the second response has blinder 0"),
 "C19-w2": ("blinders of hidden attributes from a batch of 16 with an off-by-one refill (src/utils/random.rs, sigma_protocols.rs)", "17 or more hidden attributes: the 17th blinder is 0"),
}
confirm = {}
for fn in ("/tmp/mutout10/CONFIRM.tsv", "/tmp/rebased/CONFIRM2.tsv"):
    for l in open(fn):
        p = l.rstrip("\n").split("\t")
        if len(p) >= 4: confirm[p[0].replace("-m", "-w")] = p[1:]
sens = {}
for fn in ("/tmp/sens10.log", "/tmp/sens10b.log", "/tmp/sens10c.log", "/tmp/sens10d.log", "/tmp/sens10e.log"):
    try:
        for l in open(fn, errors="replace"):
            m = re.match(r"^(C\d+-w\d) (C\d+) exit=(\d+) ?(.*)$", l.strip())
            if m: sens.setdefault(m.group(1), {}).setdefault(m.group(2), []).append({"log": os.path.basename(fn), "exit": int(m.group(3)), "violation_keys": m.group(4)[:500]})
    except FileNotFoundError: pass
for name, (what, needs) in sorted(NEEDS10.items()):
    pid = name.split("-")[0]
    d = f"{SRC}/{name}"
    if not os.path.exists(f"{d}/patch.diff"): print("missing", d); continue
    out = f"/verif/seeded/{name}"
    os.makedirs(out, exist_ok=True)
    for f in ("patch.diff", "demo.rs", "notes.md"):
        if os.path.exists(f"{d}/{f}"): shutil.copy(f"{d}/{f}", f"{out}/{f}")
    meta = {
        "breaks_property": pid, "round": 10, "change": what, "needs_to_manifest": needs,
        "base_commit": "9be38ac (final tree; written against 4c621ce, all patches apply to 9be38ac, C13-w2 rebased)",
        "origin": "written by a sub-agent that saw only the text of the property, the ideas of rounds 1-9 and its own scratch worktree",
        "confirmed_in_scratch_worktree": {"results": confirm.get(name, [])},
        "checks_run_against_it": "scripts/selftest_sensitivity.sh (scratch worktree of /repo, engines rebuilt against it, quick tier unless the log name ends in t); runs listed in order, the last one is the final harness",
        "own_and_extra_checks": sens.get(name, {}),
    }
    json.dump(meta, open(f"{out}/meta.json", "w"), indent=1)
print("seeded dirs:", len(os.listdir("/verif/seeded")))
