#!/usr/bin/env python3
"""Round 6 of the seeded changes (/tmp/mutout6: C02, C04, C06, C08, C09, C12, C13, C14, C15, C16, C19; the
C17 agent did not finish) -> /verif/seeded/Cxx-s1|s2 with a meta.json each."""
import json, os, shutil, re
SRC = "/tmp/mutout6"
NEEDS6 = {
 "C02-s1": ("per-thread memo of accepted verifications whose fingerprint joins the messages with NUL instead of framing them (src/bbsplus/signature.rs)", "after the honest verification on the same thread: neighbouring messages x and x NUL x swapped"),
 "C02-s2": ("headers that parse as a JSON object enter the domain in canonical re-serialised form (src/utils/util.rs)", "a JSON-object header re-encoded with a blank / a newline / reordered members"),
 "C04-s1": ("the same JSON canonicalisation of the header, seen from the presentation side (src/utils/util.rs)", "a JSON-object header edited without changing its parsed value"),
 "C04-s2": ("per-thread memo of pairing results whose hit path returns true whatever was stored (src/bbsplus/proof.rs)", "a forged transcript that passes the challenge comparison and fails only at the pairing, presented TWICE to the same verifier thread"),
 "C06-s1": ("ZKPoK::from_bytes collects scalars with filter_map(.ok()): blocks that are not canonical scalars are skipped (src/bbsplus/proof.rs)", "a commitment-with-proof extended by whole 32-octet blocks >= r"),
 "C06-s2": ("blind_proof_verify sorts the merged position list but not the messages (src/bbsplus/proof.rs)", "index aliasing: a committed message claimed through a signer-side index beyond L, another through the wrong committed index"),
 "C08-s1": ("update_signature computes A' with (SK + e).invert().unwrap() (src/bbsplus/signature.rs)", "an old signature with e = -SK: panic"),
 "C08-s2": ("deserialize_and_validate_commit: M = m_cap.len() with the old guard and a [..M + 1] slice (src/bbsplus/commitment.rs)", "a blind-generator list of exactly M entries: slice out of range"),
 "C09-s1": ("early range check on the three leading octets of a point encoding with < instead of <= (src/utils/util.rs)", "an honest point whose x-coordinate starts with 1a 01 11 (1 in 1.9 million)"),
 "C09-s2": ("blind_proof_gen takes signature.first_chunk() instead of try_into (src/bbsplus/proof.rs)", "signature octets followed by trailing octets, through blind_proof_gen"),
 "C12-s1": ("no-op fast path behind an octet comparison that keeps 8 bits of the length difference and compares the common prefix (src/utils/util.rs, signature.rs)", "a new value that extends / cuts the old one by a multiple of 256 octets"),
 "C12-s2": ("map_message_to_scalar_as_hash refuses values longer than 65535 octets (src/utils/message.rs)", "an update to or from a value of 65536 octets or more"),
 "C13-s1": ("Bases::generate derives a_{i+1} = a_i^2 (src/cl03/bases.rs)", "a vector changed in two positions at once: m_i + 2, m_{i+1} - 1"),
 "C13-s2": ("verify_multiattr zips bases and attributes and drops the length guard (src/cl03/signature.rs)", "an attribute vector longer than the base set"),
 "C14-s1": ("link-proof length guard tightened from && to || (src/cl03/sigma_protocols.rs)", "a trusted party's key with fewer bases than attributes (it covers the hidden positions)"),
 "C14-s2": ("serde(skip_serializing) on CL03Commitment.randomness (src/cl03/commitment.rs)", "the holder reloads its commitment from the JSON it persisted before unblinding"),
 "C15-s1": ("large-interval proof: digest compared modulo 2^128 (src/cl03/range_proof.rs)", "proof_large_i_{a,b}.C altered above its low 128 bits"),
 "C15-s2": ("first-move exponentiations through secure_pow_mod, which needs an exponent > 0 (src/cl03/sigma_protocols.rs)", "a revealed attribute equal to 0: proof_gen panics"),
 "C16-s1": ("process-wide ChaCha20 behind a Mutex that stays poisoned after a draw that panics (src/utils/random.rs)", "one prove() over an interval with upper bound <= 0 (rand_int on an empty range), then any honest proof in the same process"),
 "C16-s2": ("verifier takes floor(sqrt(b - a)) through f64 when the width fits a u64 (src/cl03/range_proof.rs)", "widths in [2^52, 2^64) just below a perfect square: every honest proof rejected"),
 "C19-s1": ("vec![random_bits(ln); n]: one mask cloned for all hidden positions of the signature proof (src/cl03/sigma_protocols.rs)", "two or more hidden attributes"),
 "C19-s2": ("process-wide generator checked out by cloning and written back (src/utils/random.rs)", "two threads inside a draw at the same instant: identical masks in concurrent proofs"),
}
confirm = {}
for l in open(f"{SRC}/CONFIRM.tsv"):
    p = l.rstrip("\n").split("\t")
    if len(p) >= 4: confirm[p[0]] = p[1:]
sens = {}
for fn in ("/tmp/sens6.log", "/tmp/sens6b.log", "/tmp/sens6c.log"):
    try:
        for l in open(fn, errors="replace"):
            m = re.match(r"^(C\d+-s\d) (C\d+) exit=(\d+) ?(.*)$", l.strip())
            if m: sens.setdefault(m.group(1), {}).setdefault(m.group(2), []).append({"exit": int(m.group(3)), "violation_keys": m.group(4)[:500]})
    except FileNotFoundError: pass
for name, (what, needs) in sorted(NEEDS6.items()):
    pid, m = name.split("-")
    d = f"{SRC}/{pid}/m{m[1:]}"
    if not os.path.exists(f"{d}/patch.diff"): print("missing", d); continue
    out = f"/verif/seeded/{name}"
    os.makedirs(out, exist_ok=True)
    for f in ("patch.diff", "demo.rs", "notes.md"):
        if os.path.exists(f"{d}/{f}"): shutil.copy(f"{d}/{f}", f"{out}/{f}")
    meta = {
        "breaks_property": pid, "round": 6, "change": what, "needs_to_manifest": needs,
        "base_commit": "919d68c (final tree)",
        "origin": "written by a sub-agent that saw only the text of the property, the ideas of rounds 1-5 and its own scratch worktree",
        "confirmed_in_scratch_worktree": {"results": confirm.get(f"{pid}-m{m[1:]}", [])},
        "checks_run_against_it": "scripts/selftest_sensitivity.sh (scratch worktree of /repo, engines rebuilt against it, quick tier); runs listed in order, the last one is the final harness",
        "own_and_extra_checks": sens.get(name, {}),
    }
    json.dump(meta, open(f"{out}/meta.json", "w"), indent=1)
print("seeded dirs:", len(os.listdir("/verif/seeded")))
