//! Wire / store fault catalogue on the shapes every frame is made of: octet strings,
//! optional octet strings, lists of octet strings (one chunk per element) and integers.
use crate::choice::Chooser;
use crate::prng::bytes_for;

pub type Bytes = Vec<u8>;
pub type Opt = Option<Vec<u8>>;

pub fn flip(b: &mut [u8], bit: usize) {
    b[bit / 8] ^= 0x80 >> (bit % 8);
}

#[derive(Clone, Debug, PartialEq, Eq)]
pub enum ListFault {
    /// xor one byte of element i (position class 0 first, 1 middle, 2 last); on an empty
    /// element a byte is appended instead
    Alter(usize, u8),
    Drop(usize),
    Dup(usize),
    Swap(usize, usize),
    /// insert a fresh element before position i (i == len appends)
    Insert(usize),
    /// keep the first n elements
    Truncate(usize),
    /// append a copy of element 0 with one more byte (a "coalesced" chunk)
    ExtendElem(usize),
    /// move the last octet of element i to the front of element i + 1: the concatenation of
    /// the list is unchanged, its framing is not
    ShiftBoundary(usize),
}

impl ListFault {
    pub fn kind(&self) -> &'static str {
        match self {
            ListFault::Alter(..) => "elem_alter",
            ListFault::Drop(..) => "elem_drop",
            ListFault::Dup(..) => "elem_dup",
            ListFault::Swap(..) => "elem_swap",
            ListFault::Insert(..) => "elem_insert",
            ListFault::Truncate(..) => "list_truncate",
            ListFault::ExtendElem(..) => "elem_extend",
            ListFault::ShiftBoundary(..) => "elem_boundary_shift",
        }
    }
    pub fn apply(&self, l: &mut Vec<Bytes>, seed: u64) {
        match *self {
            ListFault::Alter(i, cls) => {
                if let Some(e) = l.get_mut(i) {
                    if e.is_empty() {
                        e.push(0x01);
                    } else {
                        let p = match cls { 0 => 0, 1 => e.len() / 2, _ => e.len() - 1 };
                        e[p] ^= 0x01;
                    }
                }
            }
            ListFault::Drop(i) => { if i < l.len() { l.remove(i); } }
            ListFault::Dup(i) => { if i < l.len() { let e = l[i].clone(); l.insert(i, e); } }
            ListFault::Swap(i, j) => { if i < l.len() && j < l.len() { l.swap(i, j); } }
            ListFault::Insert(i) => { let i = i.min(l.len()); l.insert(i, bytes_for(seed, b"inserted", i as u64, 9)); }
            ListFault::Truncate(n) => l.truncate(n),
            ListFault::ExtendElem(i) => { if let Some(e) = l.get_mut(i) { e.push(0x00); } }
            ListFault::ShiftBoundary(i) => { if i + 1 < l.len() { if let Some(b) = l[i].pop() { l[i + 1].insert(0, b); } } }
        }
    }
    /// every single-element fault of a list of length n (complete catalogue for small n)
    pub fn all(n: usize) -> Vec<ListFault> {
        let mut v = Vec::new();
        for i in 0..n {
            for c in 0..3u8 { v.push(ListFault::Alter(i, c)); }
            v.push(ListFault::Drop(i));
            v.push(ListFault::Dup(i));
            v.push(ListFault::ExtendElem(i));
            for j in i + 1..n { v.push(ListFault::Swap(i, j)); }
        }
        for i in 0..=n { v.push(ListFault::Insert(i)); }
        for k in 0..n { v.push(ListFault::Truncate(k)); }
        for i in 0..n.saturating_sub(1) { v.push(ListFault::ShiftBoundary(i)); }
        v
    }
    /// the faults at the ends of a list of length n (first / last element, append, cut the tail,
    /// swap across the whole list and of the last two): where chunked or staged processing of
    /// a long list goes wrong
    pub fn edges(n: usize) -> Vec<ListFault> {
        if n == 0 { return vec![ListFault::Insert(0)]; }
        let mut v = vec![ListFault::Alter(n - 1, 2), ListFault::Alter(n - 1, 0), ListFault::Alter(0, 0), ListFault::Drop(n - 1), ListFault::Dup(n - 1), ListFault::ExtendElem(n - 1), ListFault::Insert(n), ListFault::Insert(0), ListFault::Truncate(n - 1), ListFault::Drop(0)];
        if n >= 2 { v.push(ListFault::Swap(0, n - 1)); v.push(ListFault::Swap(n - 2, n - 1)); v.push(ListFault::Alter(n - 2, 1)); v.push(ListFault::ShiftBoundary(n - 2)); v.push(ListFault::ShiftBoundary(0)); }
        if n >= 5 { v.push(ListFault::Alter(n - 3, 2)); v.push(ListFault::Alter(n - 4, 0)); v.push(ListFault::Truncate(n - 3)); }
        v
    }
    /// the complete catalogue when it has at most `budget` entries, otherwise the edge faults
    /// plus `extra` random ones
    pub fn pick(ch: &mut Chooser, n: usize, budget: usize, extra: usize) -> Vec<ListFault> {
        let all = ListFault::all(n);
        if all.len() <= budget { return all; }
        let mut v = ListFault::edges(n);
        for _ in 0..extra { let i = ch.choose("list_fault", all.len() as u64) as usize; v.push(all[i].clone()); }
        v
    }
    pub fn random(ch: &mut Chooser, n: usize) -> ListFault {
        let a = ListFault::all(n);
        if a.is_empty() { return ListFault::Insert(0); }
        let i = ch.choose("list_fault", a.len() as u64) as usize;
        a[i].clone()
    }
}

#[derive(Clone, Debug, PartialEq, Eq)]
pub enum OctFault {
    /// None <-> Some(empty): neutral by the API contract
    Toggle,
    AlterByte(u8),
    TruncateBy(usize),
    ExtendBy(usize),
    /// replace by unrelated bytes of the same length (or 5 bytes if absent/empty)
    Replace,
    /// present non-empty -> absent
    Remove,
    /// insert one octet (a blank, a newline) at position class 0 = after the first octet,
    /// 1 = middle, 2 = end: what a re-serialising intermediary does to a structured header
    InsertByte(u8, u8),
    /// the 8-octet big-endian length of the string in front of it (what a length-prefixed
    /// framing of the field looks like when the prefix is taken for content)
    PrependLen8,
}

impl OctFault {
    pub fn kind(&self) -> &'static str {
        match self {
            OctFault::Toggle => "opt_toggle",
            OctFault::AlterByte(_) => "oct_alter",
            OctFault::TruncateBy(_) => "oct_truncate",
            OctFault::ExtendBy(_) => "oct_extend",
            OctFault::Replace => "oct_replace",
            OctFault::Remove => "oct_remove",
            OctFault::InsertByte(..) => "oct_insert_blank",
            OctFault::PrependLen8 => "oct_prepend_length",
        }
    }
    pub fn all() -> Vec<OctFault> {
        vec![OctFault::Toggle, OctFault::AlterByte(0), OctFault::AlterByte(1), OctFault::AlterByte(2), OctFault::TruncateBy(1), OctFault::ExtendBy(1), OctFault::ExtendBy(3), OctFault::Replace, OctFault::Remove, OctFault::InsertByte(0, b' '), OctFault::InsertByte(1, b' '), OctFault::InsertByte(2, b'\n'), OctFault::PrependLen8]
    }
    pub fn apply(&self, o: &mut Opt, seed: u64) {
        match *self {
            OctFault::Toggle => {
                *o = match o.take() { None => Some(Vec::new()), Some(v) if v.is_empty() => None, Some(v) => Some(v) };
            }
            OctFault::AlterByte(cls) => {
                let mut v = o.take().unwrap_or_default();
                if v.is_empty() { v.push(1); } else { let p = match cls { 0 => 0, 1 => v.len() / 2, _ => v.len() - 1 }; v[p] ^= 0x80; }
                *o = Some(v);
            }
            OctFault::TruncateBy(k) => { if let Some(v) = o.as_mut() { let n = v.len().saturating_sub(k); v.truncate(n); } }
            OctFault::ExtendBy(k) => { let mut v = o.take().unwrap_or_default(); v.extend(std::iter::repeat(0u8).take(k)); *o = Some(v); }
            OctFault::Replace => { let n = o.as_ref().map(|v| v.len()).filter(|&n| n > 0).unwrap_or(5); *o = Some(bytes_for(seed, b"replaced", n as u64, n)); }
            OctFault::Remove => { *o = None; }
            OctFault::PrependLen8 => { let v = o.take().unwrap_or_default(); let mut w = (v.len() as u64).to_be_bytes().to_vec(); w.extend_from_slice(&v); *o = Some(w); }
            OctFault::InsertByte(cls, b) => { let mut v = o.take().unwrap_or_default(); let p = match cls { 0 => 1.min(v.len()), 1 => v.len() / 2, _ => v.len() }; v.insert(p, b); *o = Some(v); }
        }
    }
}

/// the corrupt values an integer field is replaced by
pub fn int_corruptions(honest: usize, l: usize) -> Vec<usize> {
    // (the honest value plus a multiple of 2^8 / 2^16 / 2^32 / 2^63: what survives a narrowing to
    //  u8 / u16 / u32 / i64 somewhere on the way)
    let mut v = vec![0usize, 1, l.wrapping_sub(1), l, l + 1, honest.wrapping_add(1), honest.wrapping_sub(1), 1usize << 31, 1usize << 32, 1usize << 63, usize::MAX - 1, usize::MAX, honest.wrapping_add(1usize << 8), honest.wrapping_add(1usize << 16), honest.wrapping_add(1usize << 32), honest.wrapping_add(3usize << 32), honest.wrapping_add(1usize << 63)];
    v.retain(|&x| x != honest);
    v.sort();
    v.dedup();
    v
}

/// normalised view of an optional octet string (None == empty), as the API contract states
pub fn norm(o: &Opt) -> &[u8] {
    o.as_deref().unwrap_or(&[])
}
