//! The only PRNG of the simulator: xoshiro256** seeded through SHA-256.
use sha2::{Digest, Sha256};

#[derive(Clone, Debug)]
pub struct Xo(pub [u64; 4]);

/// Derive four 64-bit words from a seed and a list of labels (domain separated).
pub fn derive4(seed: u64, labels: &[&[u8]]) -> [u64; 4] {
    let mut h = Sha256::new();
    h.update(b"zksim/v1");
    h.update(seed.to_le_bytes());
    for l in labels {
        h.update((l.len() as u64).to_le_bytes());
        h.update(l);
    }
    let d = h.finalize();
    let mut o = [0u64; 4];
    for i in 0..4 {
        o[i] = u64::from_le_bytes(d[i * 8..i * 8 + 8].try_into().unwrap());
    }
    if o == [0; 4] {
        o[0] = 1;
    }
    o
}
pub fn derive(seed: u64, labels: &[&[u8]]) -> u64 {
    derive4(seed, labels)[0]
}

impl Xo {
    pub fn new(seed: u64, labels: &[&[u8]]) -> Self {
        Xo(derive4(seed, labels))
    }
    #[inline]
    pub fn next(&mut self) -> u64 {
        let s = &mut self.0;
        let r = s[1].wrapping_mul(5).rotate_left(7).wrapping_mul(9);
        let t = s[1] << 17;
        s[2] ^= s[0];
        s[3] ^= s[1];
        s[1] ^= s[2];
        s[0] ^= s[3];
        s[2] ^= t;
        s[3] = s[3].rotate_left(45);
        r
    }
    /// uniform in 0..n (n >= 1); n == 0 is treated as 1
    pub fn below(&mut self, n: u64) -> u64 {
        if n <= 1 {
            return 0;
        }
        // rejection sampling for exact uniformity
        let zone = u64::MAX - (u64::MAX % n);
        loop {
            let v = self.next();
            if v < zone {
                return v % n;
            }
        }
    }
    pub fn fill(&mut self, buf: &mut [u8]) {
        for c in buf.chunks_mut(8) {
            let r = self.next().to_le_bytes();
            c.copy_from_slice(&r[..c.len()]);
        }
    }
}

/// Deterministic bytes for a (seed, tag) pair: message contents, key material, ...
pub fn bytes_for(seed: u64, tag: &[u8], idx: u64, len: usize) -> Vec<u8> {
    let mut x = Xo::new(seed, &[b"bytes", tag, &idx.to_le_bytes()]);
    let mut v = vec![0u8; len];
    x.fill(&mut v);
    v
}
