//! Batch runner: many independent seeded runs on a worker pool, merged by run index (so the
//! output does not depend on the worker count), minimisation of failing runs, replay files,
//! known-findings matching, evidence.
use crate::choice::{Choice, Chooser};
use crate::prng::derive;
use crate::sim::{Cx, Violation};
use serde_json::{json, Value};
use std::collections::{BTreeMap, BTreeSet};
use std::sync::atomic::{AtomicBool, AtomicU64, Ordering};
use std::sync::Mutex;
use std::time::Instant;

pub struct Check {
    pub property: &'static str,
    pub level: &'static str,
    pub rule: &'static str,
    pub quick_runs: u64,
    /// thorough tier: at least this many runs, then until the time budget is used
    pub thorough_runs: u64,
    pub run: fn(&mut Cx),
    pub assumptions: &'static [&'static str],
    pub real: &'static [&'static str],
    pub simulated: &'static [&'static str],
    /// Some(n): the enumeration this check performs is complete once run indexes 0..n have
    /// run (quick tier); reported as `exhaustive`
    pub exhaustive_after: Option<u64>,
    /// "this rare condition was hit" probes the batch is expected to reach; one that stays at zero
    /// is reported in the evidence (the workload or fault mix would have to change)
    pub probes: &'static [&'static str],
}

pub struct RunReport {
    pub index: u64,
    pub run_seed: u64,
    pub choices: Vec<Choice>,
    pub violations: Vec<Violation>,
    pub counters: BTreeMap<String, u64>,
    pub cells: BTreeSet<String>,
    pub cases: BTreeSet<u64>,
    pub log_hash: String,
    pub sched_hash: String,
    pub steps: u64,
    pub trace: Vec<String>,
    pub overrun: bool,
    pub focus: Option<u64>,
}

static VERIF_SEED: AtomicU64 = AtomicU64::new(0);
/// the VERIF_SEED of the batch (or of the replay file) this process is executing
pub fn verif_seed() -> u64 {
    VERIF_SEED.load(Ordering::Relaxed)
}

pub fn run_seed_for(seed: u64, property: &str, index: u64) -> u64 {
    derive(seed, &[b"run", property.as_bytes(), &index.to_le_bytes()])
}

pub fn execute(check: &Check, run_seed: u64, index: u64, thorough: bool, ch: Chooser, keep_trace: bool) -> RunReport {
    execute_focused(check, run_seed, index, thorough, ch, keep_trace, None)
}

pub fn execute_focused(check: &Check, run_seed: u64, index: u64, thorough: bool, ch: Chooser, keep_trace: bool, focus: Option<u64>) -> RunReport {
    let mut cx = Cx::new(run_seed, index, thorough, ch);
    cx.focus = focus;
    if !keep_trace {
        cx.trace_cap = 0;
    }
    (check.run)(&mut cx);
    cx.run(); // drain anything the scenario left queued
    cx.shutdown();
    let cases = std::mem::take(&mut cx.case_set);
    RunReport {
        index,
        run_seed,
        choices: std::mem::take(&mut cx.ch.rec),
        violations: std::mem::take(&mut cx.violations),
        counters: std::mem::take(&mut cx.counters),
        cells: std::mem::take(&mut cx.cells),
        cases,
        log_hash: cx.log_hash(),
        sched_hash: cx.sched_hash(),
        steps: cx.steps,
        trace: std::mem::take(&mut cx.trace),
        overrun: cx.ch.overrun,
        focus,
    }
}

// ---------------------------------------------------------------- known findings

#[derive(Clone, Debug)]
pub struct Finding {
    pub property: String,
    pub key: String,
    pub text: String,
}

pub fn load_findings(path: &str) -> Vec<Finding> {
    let mut v = Vec::new();
    let Ok(s) = std::fs::read_to_string(path) else { return v };
    for line in s.lines() {
        let line = line.trim();
        let Some(rest) = line.strip_prefix("finding:") else { continue };
        let rest = rest.trim();
        let mut property = String::new();
        let mut key = String::new();
        let mut text = Vec::new();
        for tok in rest.split_whitespace() {
            if let Some(p) = tok.strip_prefix("property=") {
                if property.is_empty() { property = p.to_string(); continue; }
            }
            if let Some(k) = tok.strip_prefix("key=") {
                if key.is_empty() { key = k.to_string(); continue; }
            }
            text.push(tok);
        }
        if !property.is_empty() && !key.is_empty() {
            v.push(Finding { property, key, text: text.join(" ") });
        }
    }
    v
}

/// glob with `*` only
pub fn glob(pat: &str, s: &str) -> bool {
    // "[*]" is the literal index placeholder of generic field paths, not a wildcard
    let pat = pat.replace("[*]", "[\u{1}]");
    let s = s.replace("[*]", "[\u{1}]");
    let (pat, s) = (pat.as_str(), s.as_str());
    let parts: Vec<&str> = pat.split('*').collect();
    if parts.len() == 1 {
        return pat == s;
    }
    let mut pos = 0usize;
    for (i, p) in parts.iter().enumerate() {
        if i == 0 {
            if !s.starts_with(p) { return false; }
            pos = p.len();
        } else if i == parts.len() - 1 {
            return s.len() >= pos + p.len() && s[pos..].ends_with(p);
        } else {
            match s[pos..].find(p) {
                Some(k) => pos += k + p.len(),
                None => return false,
            }
        }
    }
    true
}

// ---------------------------------------------------------------- minimisation

fn reproduces(check: &Check, base: &RunReport, thorough: bool, vals: &[u64], key: &str, focus: Option<u64>) -> Option<RunReport> {
    let r = execute_focused(check, base.run_seed, base.index, thorough, Chooser::replay(vals.to_vec()), true, focus);
    if r.violations.iter().any(|v| v.key == key && v.property == check.property) { Some(r) } else { None }
}

/// Shrink the choice list while the same violation (property, key) persists.
pub fn minimise(check: &Check, base: RunReport, thorough: bool, key: &str, max_exec: u32, max_s: f64) -> RunReport {
    let t0 = Instant::now();
    let mut execs = 0u32;
    let mut cur: Vec<u64> = base.choices.iter().map(|c| c.value).collect();
    let mut best = match reproduces(check, &base, thorough, &cur, key, None) {
        Some(r) => r,
        None => return base, // not reproducible from its own choices: keep as is (replay will say so)
    };
    // focus on the one catalogue item that fails, if the violation carries one and the
    // violation persists when every other item is skipped
    let mut focus: Option<u64> = None;
    if let Some(it) = best.violations.iter().find(|v| v.key == key).and_then(|v| v.item) {
        if let Some(r) = reproduces(check, &base, thorough, &cur, key, Some(it)) {
            focus = Some(it);
            best = r;
            cur = best.choices.iter().map(|c| c.value).collect();
        }
    }
    let try_cand = |cand: &Vec<u64>, execs: &mut u32| -> Option<RunReport> {
        if *execs >= max_exec || t0.elapsed().as_secs_f64() > max_s { return None; }
        *execs += 1;
        // the item number of the failing frame may move when the workload shrinks: follow it
        if focus.is_some() {
            let r = reproduces(check, &base, thorough, cand, key, None)?;
            let it = r.violations.iter().find(|v| v.key == key).and_then(|v| v.item)?;
            return reproduces(check, &base, thorough, cand, key, Some(it));
        }
        reproduces(check, &base, thorough, cand, key, None)
    };
    // pass 1: truncate the tail (missing entries read as 0)
    let mut lo = 0usize;
    let mut hi = cur.len();
    while lo < hi {
        let mid = (lo + hi) / 2;
        let cand = cur[..mid].to_vec();
        if let Some(r) = try_cand(&cand, &mut execs) { hi = mid; cur = cand; best = r; } else { lo = mid + 1; }
        if execs >= max_exec { break; }
    }
    // pass 2: delete blocks
    for bs in [16usize, 8, 4, 2, 1] {
        let mut i = cur.len();
        while i >= bs {
            i -= bs;
            if i + bs > cur.len() { continue; }
            let mut cand = cur.clone();
            cand.drain(i..i + bs);
            if let Some(r) = try_cand(&cand, &mut execs) { cur = cand; best = r; }
        }
    }
    // pass 3: lower values (0, then halves)
    for i in 0..cur.len() {
        if i >= cur.len() { break; }
        if cur[i] == 0 { continue; }
        let mut cand = cur.clone();
        cand[i] = 0;
        if let Some(r) = try_cand(&cand, &mut execs) { cur = cand; best = r; continue; }
        let mut v = cur[i];
        while v > 1 {
            let nv = v / 2;
            let mut cand = cur.clone();
            cand[i] = nv;
            if let Some(r) = try_cand(&cand, &mut execs) { cur = cand; best = r; v = nv; } else { break; }
        }
    }
    // trim trailing zeros
    while cur.last() == Some(&0) { cur.pop(); }
    let _ = cur;
    best
}

// ---------------------------------------------------------------- replay files

pub fn verif_dir() -> String {
    std::env::var("ZKSIM_VERIF_DIR").unwrap_or_else(|_| "/verif".to_string())
}

pub fn write_replay(check: &Check, r: &RunReport, thorough: bool, key: &str, seed: u64) -> String {
    let dir = format!("{}/replays", verif_dir());
    let _ = std::fs::create_dir_all(&dir);
    let safe: String = key.chars().map(|c| if c.is_ascii_alphanumeric() { c } else { '_' }).take(60).collect();
    let path = format!("{dir}/{}-{}-{}-{}.json", check.property, seed, r.index, safe);
    let v: Vec<&Violation> = r.violations.iter().filter(|v| v.key == key).collect();
    let j = json!({
        "property": check.property,
        "tier": if thorough { "thorough" } else { "quick" },
        "verif_seed": seed,
        "run_index": r.index,
        "run_seed": r.run_seed,
        "violation_key": key,
        "violation_detail": v.first().map(|v| v.detail.clone()).unwrap_or_default(),
        "expected_log_hash": r.log_hash,
        "focus_item": r.focus,
        "choices": r.choices.iter().map(|c| json!([c.label, c.bound, c.value])).collect::<Vec<_>>(),
        "trace": r.trace,
        "how_to_replay": format!("./zk replay {path}"),
    });
    std::fs::write(&path, serde_json::to_string_pretty(&j).unwrap()).expect("write replay");
    path
}

/// Returns the process exit code.
pub fn replay(checks: &[&Check], path: &str) -> i32 {
    let Ok(s) = std::fs::read_to_string(path) else { eprintln!("cannot read {path}"); return 2 };
    let Ok(j) = serde_json::from_str::<Value>(&s) else { eprintln!("bad replay file"); return 2 };
    let prop = j["property"].as_str().unwrap_or("");
    let Some(check) = checks.iter().find(|c| c.property == prop) else { eprintln!("unknown property {prop}"); return 2 };
    let thorough = j["tier"].as_str() == Some("thorough");
    let run_seed = j["run_seed"].as_u64().unwrap_or(0);
    VERIF_SEED.store(j["verif_seed"].as_u64().unwrap_or(0), Ordering::Relaxed);
    let index = j["run_index"].as_u64().unwrap_or(0);
    let key = j["violation_key"].as_str().unwrap_or("").to_string();
    let vals: Vec<u64> = j["choices"].as_array().map(|a| a.iter().map(|c| c[2].as_u64().unwrap_or(0)).collect()).unwrap_or_default();
    let focus = j["focus_item"].as_u64();
    let r = execute_focused(check, run_seed, index, thorough, Chooser::replay(vals), true, focus);
    for l in &r.trace { println!("  | {l}"); }
    let hit = r.violations.iter().find(|v| v.key == key);
    match hit {
        Some(v) => {
            println!("replayed: {} :: {}", v.key, v.detail);
            if let Some(h) = j["expected_log_hash"].as_str() {
                if h != r.log_hash { println!("note: event-log hash differs from the recorded one ({h} vs {}): the code under test changed since the file was written", r.log_hash); }
            }
            println!("VIOLATION property={prop} replay={path}");
            1
        }
        None => {
            println!("replay of {path}: violation {key} did NOT reproduce on this tree ({} other violations)", r.violations.len());
            0
        }
    }
}

// ---------------------------------------------------------------- the check driver

pub fn env_u64(name: &str, default: u64) -> u64 {
    std::env::var(name).ok().and_then(|s| s.trim().parse::<u64>().ok()).unwrap_or(default)
}

pub fn workers() -> usize {
    let d = std::thread::available_parallelism().map(|n| n.get()).unwrap_or(4);
    env_u64("ZKSIM_WORKERS", d as u64).max(1) as usize
}

pub struct BatchResult {
    pub reports: BTreeMap<u64, RunReport>,
    pub wall_s: f64,
    pub truncated: bool,
}

pub fn run_batch(check: &Check, seed: u64, thorough: bool, min_runs: u64, budget_s: f64, hard_cap_s: f64) -> BatchResult {
    let t0 = Instant::now();
    let next = AtomicU64::new(0);
    let stop = AtomicBool::new(false);
    let truncated = AtomicBool::new(false);
    let reports: Mutex<BTreeMap<u64, RunReport>> = Mutex::new(BTreeMap::new());
    let nw = workers();
    std::thread::scope(|s| {
        for _ in 0..nw {
            s.spawn(|| loop {
                if stop.load(Ordering::Relaxed) { break; }
                let el = t0.elapsed().as_secs_f64();
                let idx = next.fetch_add(1, Ordering::Relaxed);
                if idx >= min_runs && (!thorough || el > budget_s) { break; }
                if el > hard_cap_s { truncated.store(true, Ordering::Relaxed); stop.store(true, Ordering::Relaxed); break; }
                let rs = run_seed_for(seed, check.property, idx);
                let keep = idx < 3;
                let r = execute(check, rs, idx, thorough, Chooser::random(rs), keep);
                reports.lock().unwrap().insert(idx, r);
            });
        }
    });
    BatchResult { reports: reports.into_inner().unwrap(), wall_s: t0.elapsed().as_secs_f64(), truncated: truncated.load(Ordering::Relaxed) }
}

pub fn run_check(check: &Check, thorough: bool, seed: u64) -> i32 {
    let t0 = Instant::now();
    let tier = if thorough { "thorough" } else { "quick" };
    let budget_s = env_u64("VERIF_BUDGET_S", if thorough { 360 } else { 0 }) as f64;
    let min_runs = if thorough { check.thorough_runs } else { env_u64("ZKSIM_RUNS", check.quick_runs) };
    let hard_cap = if thorough { budget_s * 3.0 + 600.0 } else { env_u64("ZKSIM_QUICK_CAP_S", 240) as f64 };
    println!("zksim: check {} tier={tier} seed={seed} runs>={min_runs} workers={}", check.property, workers());
    let batch = run_batch(check, seed, thorough, min_runs, budget_s, hard_cap);

    // merge in index order
    let mut counters: BTreeMap<String, u64> = BTreeMap::new();
    let mut cells: BTreeSet<String> = BTreeSet::new();
    let mut cases: BTreeSet<u64> = BTreeSet::new();
    let mut scheds: BTreeSet<String> = BTreeSet::new();
    let mut steps = 0u64;
    let mut samples: Vec<Value> = Vec::new();
    let mut seeds: Vec<u64> = Vec::new();
    let mut first_by_key: BTreeMap<String, u64> = BTreeMap::new();
    let mut n_viol_runs = 0u64;
    let mut batch_hash = sha2::Sha256::default();
    use sha2::Digest;
    for (idx, r) in &batch.reports {
        for (k, v) in &r.counters { *counters.entry(k.clone()).or_insert(0) += v; }
        cells.extend(r.cells.iter().cloned());
        cases.extend(r.cases.iter().cloned());
        scheds.insert(r.sched_hash.clone());
        steps += r.steps;
        batch_hash.update(r.log_hash.as_bytes());
        if seeds.len() < 8 { seeds.push(r.run_seed); }
        if samples.len() < 3 && !r.trace.is_empty() {
            samples.push(json!({"run_index": idx, "run_seed": r.run_seed, "log_hash": r.log_hash,
                "choices": r.choices.iter().take(40).map(|c| format!("{}={}/{}", c.label, c.value, c.bound)).collect::<Vec<_>>(),
                "trace": r.trace.iter().take(60).collect::<Vec<_>>() }));
        }
        if !r.violations.is_empty() { n_viol_runs += 1; }
        for v in &r.violations {
            if v.property == check.property { first_by_key.entry(v.key.clone()).or_insert(*idx); }
        }
    }
    let n_runs = batch.reports.len() as u64;

    // violations: known findings vs new
    let findings = load_findings(&format!("{}/known_findings.txt", verif_dir()));
    let mut known_hit: BTreeMap<String, (Finding, u64)> = BTreeMap::new();
    let mut new_keys: Vec<(String, u64)> = Vec::new();
    for (key, idx) in &first_by_key {
        if let Some(f) = findings.iter().find(|f| f.property == check.property && glob(&f.key, key)) {
            let e = known_hit.entry(f.key.clone()).or_insert((f.clone(), 0));
            e.1 += 1;
        } else {
            new_keys.push((key.clone(), *idx));
        }
    }
    for (_, (f, n)) in &known_hit {
        println!("KNOWN-FINDING: property={} key={} {} [{} distinct violation keys matched]", f.property, f.key, f.text, n);
    }
    let mut replay_paths = Vec::new();
    let mut batch = batch;
    for (key, idx) in new_keys.iter().take(6) {
        let base = batch.reports.remove(idx);
        let Some(base) = base else {
            // the run already served another key: re-execute it
            let rs = run_seed_for(seed, check.property, *idx);
            let r = execute(check, rs, *idx, thorough, Chooser::random(rs), true);
            let m = minimise(check, r, thorough, key, 40, 12.0);
            let p = write_replay(check, &m, thorough, key, seed);
            println!("violation: {key}");
            println!("VIOLATION property={} replay={}", check.property, p);
            replay_paths.push(p);
            continue;
        };
        let m = minimise(check, base, thorough, key, 40, 12.0);
        let p = write_replay(check, &m, thorough, key, seed);
        if let Some(v) = m.violations.iter().find(|v| &v.key == key) {
            println!("violation: {} :: {}", v.key, v.detail);
        }
        println!("VIOLATION property={} replay={}", check.property, p);
        replay_paths.push(p);
    }
    if new_keys.len() > 6 {
        println!("zksim: {} further distinct violation keys not minimised: {:?}", new_keys.len() - 6, new_keys.iter().skip(6).map(|k| &k.0).take(20).collect::<Vec<_>>());
    }

    // evidence
    let wall = t0.elapsed().as_secs_f64();
    let evals = counters.get("eval").copied().unwrap_or(0).max(1);
    let pick = |prefix: &str| -> serde_json::Map<String, Value> {
        counters.iter().filter(|(k, _)| k.starts_with(prefix)).map(|(k, v)| (k[prefix.len()..].to_string(), json!(v))).collect()
    };
    let probes = pick("probe.");
    let stuck: Vec<String> = check.probes.iter().filter(|p| counters.get(&format!("probe.{p}")).copied().unwrap_or(0) == 0).map(|p| p.to_string()).collect();
    if !stuck.is_empty() { println!("zksim: probes stuck at zero: {stuck:?}"); }
    let exhaustive = !thorough && check.exhaustive_after.map(|n| n_runs >= n && !batch.truncated).unwrap_or(false)
        || thorough && check.exhaustive_after.map(|n| n_runs >= n).unwrap_or(false);
    let ev = json!({
        "property_id": check.property,
        "tier": tier,
        "seed": seed,
        "level": check.level,
        "coverage": {
            "evaluations": evals,
            "distinct_nontrivial": cases.len(),
            "rule": check.rule,
            "samples": samples,
            "exhaustive": exhaustive,
            "simulated_runs": n_runs,
            "runs_per_hour": (n_runs as f64 / batch.wall_s.max(1e-3) * 3600.0) as u64,
            "seeds_per_hour": (n_runs as f64 / batch.wall_s.max(1e-3) * 3600.0) as u64,
            "first_run_seeds": seeds,
            "simulated_steps": steps,
            "simulated_time_note": "logical time only: the library has no clock, timers or deadlines; one step = one protocol action of one node",
            "faults_fired": pick("fault."),
            "verdicts": pick("verdict."),
            "probes": probes,
            "probes_stuck_at_zero": stuck,
            "other_counters": pick("n."),
            "distinct_interleavings": scheds.len(),
            "distinct_cells": cells.len(),
            "cells_sample": cells.iter().take(40).collect::<Vec<_>>(),
            "batch_hash": crate::sim::hex(&batch_hash.finalize()[..16]),
            "truncated_by_wall_cap": batch.truncated,
            "components_real": check.real,
            "components_simulated": check.simulated,
            "known_findings_matched": known_hit.keys().collect::<Vec<_>>(),
            "replays_written": replay_paths,
        },
        "assumptions": check.assumptions,
        "wall_s": wall,
        "violations": new_keys.len(),
    });
    let evdir = format!("{}/evidence", verif_dir());
    let _ = std::fs::create_dir_all(&evdir);
    let suffix = std::env::var("ZKSIM_EVIDENCE_SUFFIX").unwrap_or_default();
    std::fs::write(format!("{evdir}/{}{suffix}.json", check.property), serde_json::to_string_pretty(&ev).unwrap()).expect("write evidence");
    println!(
        "zksim: {} {tier}: {n_runs} runs, {steps} steps, {evals} evaluations, {} distinct cases, {} interleavings, {} violating runs, {:.1}s",
        check.property, cases.len(), scheds.len(), n_viol_runs, wall
    );
    if new_keys.is_empty() { 0 } else { 1 }
}

/// Determinism self-test: every run seed executed twice; event-log hashes must agree.
pub fn selftest_determinism(checks: &[&Check], seed: u64, runs_per_check: u64) -> i32 {
    let mut bad = 0;
    for c in checks {
        let a = run_batch(c, seed, false, runs_per_check, 0.0, 600.0);
        let b = run_batch(c, seed, false, runs_per_check, 0.0, 600.0);
        let mut diff = 0;
        for (i, ra) in &a.reports {
            let rb = &b.reports[i];
            if ra.log_hash != rb.log_hash || ra.sched_hash != rb.sched_hash { diff += 1; if diff <= 3 { println!("  {} run {i}: {} vs {}", c.property, ra.log_hash, rb.log_hash); } }
        }
        println!("determinism {}: {} runs x2, {} divergent", c.property, a.reports.len(), diff);
        bad += diff;
    }
    if bad == 0 { 0 } else { 2 }
}

/// Process configuration as a fault dimension: every environment variable the library under
/// test reads (found by scanning its sources for env::var / env::var_os calls) is set to a
/// plausible value -- 64 octets of hex -- before the first library call.  A library that lets the
/// environment decide what should be random or secret shows it in the ordinary checks.
/// The pinned tree reads no variable at all.
pub fn inject_configuration() -> Vec<String> {
    fn walk(dir: &std::path::Path, out: &mut Vec<String>) {
        let Ok(rd) = std::fs::read_dir(dir) else { return };
        for e in rd.flatten() {
            let p = e.path();
            if p.is_dir() { walk(&p, out); continue; }
            if p.extension().map(|x| x != "rs").unwrap_or(true) { continue; }
            let Ok(text) = std::fs::read_to_string(&p) else { continue };
            for pat in ["env::var(\"", "env::var_os(\"", "env::vars().find(|(k, _)| k == \"", "option_env!(\""] {
                let mut rest = text.as_str();
                while let Some(i) = rest.find(pat) {
                    rest = &rest[i + pat.len()..];
                    if let Some(j) = rest.find('"') { let name = &rest[..j]; if !name.is_empty() && name.chars().all(|c| c.is_ascii_alphanumeric() || c == '_') { out.push(name.to_string()); } }
                }
            }
        }
    }
    let repo = std::env::var("ZKSIM_REPO").unwrap_or_else(|_| "/repo".into());
    let mut names = Vec::new();
    walk(&std::path::Path::new(&repo).join("src"), &mut names);
    names.sort(); names.dedup();
    names.retain(|n| !["HOME", "PATH", "PWD", "TMPDIR", "RUST_LOG", "RUST_BACKTRACE", "CARGO_MANIFEST_DIR", "OUT_DIR"].contains(&n.as_str()) && !n.starts_with("ZKSIM_") && !n.starts_with("VERIF_"));
    for n in &names { if std::env::var_os(n).is_none() { std::env::set_var(n, "ab".repeat(64)); } }
    names
}

pub fn cli(checks: &[&Check]) -> i32 {
    let injected = inject_configuration();
    if !injected.is_empty() { eprintln!("zksim: the library reads {} environment variable(s); set for this process: {}", injected.len(), injected.join(", ")); }
    let args: Vec<String> = std::env::args().skip(1).collect();
    let seed = env_u64("VERIF_SEED", 20261003);
    VERIF_SEED.store(seed, Ordering::Relaxed);
    match args.first().map(|s| s.as_str()) {
        Some("check") => {
            let id = args.get(1).cloned().unwrap_or_default();
            let mut tier = std::env::var("VERIF_TIER").unwrap_or_else(|_| "quick".into());
            let mut i = 2;
            while i < args.len() {
                if args[i] == "--tier" && i + 1 < args.len() { tier = args[i + 1].clone(); i += 1; }
                i += 1;
            }
            let Some(c) = checks.iter().find(|c| c.property == id) else { eprintln!("unknown check {id}"); return 2 };
            run_check(c, tier == "thorough", seed)
        }
        Some("replay") => replay(checks, args.get(1).map(|s| s.as_str()).unwrap_or("")),
        Some("determinism") => {
            let n = args.get(1).and_then(|s| s.parse().ok()).unwrap_or(64);
            let sel: Vec<&Check> = match args.get(2) { Some(id) => checks.iter().copied().filter(|c| c.property == *id).collect(), None => checks.to_vec() };
            selftest_determinism(&sel, seed, n)
        }
        Some("hashes") => {
            // print per-run log hashes (for cross-process / cross-worker-count diffs)
            let id = args.get(1).cloned().unwrap_or_default();
            let n = args.get(2).and_then(|s| s.parse().ok()).unwrap_or(64);
            let Some(c) = checks.iter().find(|c| c.property == id) else { return 2 };
            let b = run_batch(c, seed, false, n, 0.0, 600.0);
            for (i, r) in &b.reports { println!("{} {i} {} {} v={}", c.property, r.log_hash, r.sched_hash, r.violations.len()); }
            0
        }
        Some("run") => {
            let id = args.get(1).cloned().unwrap_or_default();
            let idx: u64 = args.get(2).and_then(|s| s.parse().ok()).unwrap_or(0);
            let thorough = args.get(3).map(|s| s == "thorough").unwrap_or(false);
            let Some(c) = checks.iter().find(|c| c.property == id) else { return 2 };
            let rs = run_seed_for(seed, c.property, idx);
            let mut cxr = execute(c, rs, idx, thorough, Chooser::random(rs), true);
            cxr.trace.truncate(2000);
            for l in &cxr.trace { println!("{l}"); }
            for v in &cxr.violations { println!("VIOL {} {} :: {}", v.property, v.key, v.detail); }
            println!("counters: {:?}", cxr.counters);
            0
        }
        Some("list") => { for c in checks { println!("{}", c.property); } 0 }
        _ => { eprintln!("usage: check <ID> [--tier quick|thorough] | replay <file> | determinism [n] [ID] | hashes <ID> [n] | run <ID> <index>"); 2 }
    }
}
