//! One simulated run: nodes are real OS threads (so that per-thread RNG state is per
//! node, as in a deployment), exactly one of them holds the baton at any instant, and the
//! coordinator -- drawing every decision from the run's `Chooser` -- decides who runs next.
//! A node gives the baton back when its step ends or, at a coordinator-chosen `tick`
//! inside a library loop, in the middle of a call (preemption).
use crate::choice::Chooser;
use crate::entropy;
use crate::prng::derive4;
use sha2::{Digest, Sha256};
use std::any::Any;
use std::cell::{Cell, RefCell};
use std::collections::{BTreeMap, BTreeSet, VecDeque};
use std::sync::mpsc::{channel, Receiver, Sender};
use std::sync::OnceLock;
use std::thread::JoinHandle;

pub type AnyBox = Box<dyn Any + Send>;
pub type Job = Box<dyn FnOnce() -> AnyBox + Send>;

#[derive(Clone, Debug, Default)]
pub struct StepOpts {
    /// 0 = unlimited
    pub tick_budget: u64,
    /// yield the baton when the step's tick counter reaches this value
    pub preempt_at: Option<u64>,
    /// yield the baton at the first tick of this site (e.g. a "phase: ..." boundary)
    pub preempt_site: Option<&'static str>,
    /// legal entropy faults injected on this node for this step
    pub eintr: i32,
    pub short_reads: i32,
}

#[derive(Clone, Debug, PartialEq, Eq)]
pub enum Crash {
    /// work budget exceeded (ticks, site)
    Budget(u64, String),
    Panic(String),
}

pub struct RawOutcome {
    pub result: Result<AnyBox, Crash>,
    pub ticks: u64,
    pub alloc_bytes: u64,
    pub alloc_max: u64,
    /// (getrandom calls, bytes, EINTR injected, short reads injected) during the step
    pub ent: (u64, u64, u64, u64),
    pub preempted: u32,
}

pub struct Step<T> {
    pub out: Result<T, Crash>,
    pub ticks: u64,
    pub alloc_bytes: u64,
    pub alloc_max: u64,
    pub ent: (u64, u64, u64, u64),
    pub preempted: u32,
}

enum Cmd {
    Run(Job, StepOpts),
    Exit,
}
enum Reply {
    Done(RawOutcome),
    Yielded(u64, &'static str),
}

struct BudgetTrip(u64, &'static str);

thread_local! {
    static TICKS: Cell<u64> = const { Cell::new(0) };
    static ALL_TICKS: Cell<u64> = const { Cell::new(0) };
    static TICK_BUDGET: Cell<u64> = const { Cell::new(0) };
    static PREEMPT_AT: Cell<u64> = const { Cell::new(u64::MAX) };
    static PREEMPT_SITE: Cell<Option<&'static str>> = const { Cell::new(None) };
    static PREEMPTED: Cell<u32> = const { Cell::new(0) };
    static QUIET: Cell<bool> = const { Cell::new(false) };
    static YIELD: RefCell<Option<(Sender<Reply>, Receiver<()>)>> = const { RefCell::new(None) };
    pub static ALLOC_BYTES: Cell<u64> = const { Cell::new(0) };
    pub static ALLOC_MAX: Cell<u64> = const { Cell::new(0) };
}

/// Counting allocator: bytes requested per thread (no clock, no failure injection).
pub struct CountingAlloc;
unsafe impl std::alloc::GlobalAlloc for CountingAlloc {
    unsafe fn alloc(&self, l: std::alloc::Layout) -> *mut u8 {
        let _ = ALLOC_BYTES.try_with(|c| c.set(c.get().wrapping_add(l.size() as u64)));
        let _ = ALLOC_MAX.try_with(|c| if (l.size() as u64) > c.get() { c.set(l.size() as u64) });
        std::alloc::System.alloc(l)
    }
    unsafe fn dealloc(&self, p: *mut u8, l: std::alloc::Layout) {
        std::alloc::System.dealloc(p, l)
    }
    unsafe fn realloc(&self, p: *mut u8, l: std::alloc::Layout, n: usize) -> *mut u8 {
        let _ = ALLOC_BYTES.try_with(|c| c.set(c.get().wrapping_add(n.saturating_sub(l.size()) as u64)));
        let _ = ALLOC_MAX.try_with(|c| if (n as u64) > c.get() { c.set(n as u64) });
        std::alloc::System.realloc(p, l, n)
    }
}

/// The callback a guarded `tick` hook in the library under test calls from inside its
/// loops.  Counts work, trips the budget, and yields the baton at the chosen tick.
pub fn on_tick(site: &'static str) {
    // "phase:" sites mark boundaries between the phases of a call: they are preemption points
    // but not units of input-proportional work
    let phase = site.starts_with("phase:");
    let at = ALL_TICKS.with(|c| {
        let v = c.get() + 1;
        c.set(v);
        v
    });
    if !phase {
        let t = TICKS.with(|c| {
            let v = c.get() + 1;
            c.set(v);
            v
        });
        let b = TICK_BUDGET.with(|c| c.get());
        if b != 0 && t > b {
            std::panic::panic_any(BudgetTrip(t, site));
        }
    }
    let t = at;
    let at_site = PREEMPT_SITE.with(|c| match c.get() {
        Some(s) if s == site => {
            c.set(None);
            true
        }
        _ => false,
    });
    if at_site || PREEMPT_AT.with(|c| c.get()) == t {
        YIELD.with(|y| {
            if let Some((tx, rx)) = y.borrow().as_ref() {
                PREEMPTED.with(|c| c.set(c.get() + 1));
                let _ = tx.send(Reply::Yielded(t, site));
                let _ = rx.recv(); // parked until the coordinator resumes us
            }
        });
    }
}

/// real time after which a node that holds the baton is taken to be blocked (ZKSIM_BLOCK_MS)
fn blocked_after() -> std::time::Duration {
    static D: OnceLock<u64> = OnceLock::new();
    std::time::Duration::from_millis(*D.get_or_init(|| std::env::var("ZKSIM_BLOCK_MS").ok().and_then(|v| v.parse().ok()).unwrap_or(8000)))
}

fn step_timeout_s() -> u64 {
    static D: OnceLock<u64> = OnceLock::new();
    *D.get_or_init(|| std::env::var("ZKSIM_STEP_TIMEOUT_S").ok().and_then(|v| v.parse().ok()).unwrap_or(1500))
}

static NODE_INIT: OnceLock<fn()> = OnceLock::new();
/// Called once by the engine: `f` runs at the start of every node thread (it installs
/// `on_tick` into the library's guarded hook).
pub fn set_node_init(f: fn()) {
    let _ = NODE_INIT.set(f);
}

/// Process configuration the library can meet: a `log` logger installed at Trace level.  The
/// sink formats every record (so that lazily evaluated log arguments ARE evaluated, on whatever
/// thread logs) and throws the text away.
struct LogSink;
impl log::Log for LogSink {
    fn enabled(&self, _: &log::Metadata) -> bool { true }
    fn log(&self, record: &log::Record) {
        let text = format!("{}", record.args());
        std::hint::black_box(text.len());
    }
    fn flush(&self) {}
}
static LOG_SINK: LogSink = LogSink;
pub fn install_log_sink() {
    if log::set_logger(&LOG_SINK).is_ok() { log::set_max_level(log::LevelFilter::Trace); }
}

pub fn install_quiet_panic_hook() {
    let prev = std::panic::take_hook();
    std::panic::set_hook(Box::new(move |info| {
        if !QUIET.with(|q| q.get()) {
            // a panic outside a node thread is a bug of the harness itself
            prev(info);
            eprintln!("zksim: panic outside a simulated node (harness error)");
            std::process::exit(2);
        }
    }));
}

fn crash_of(p: Box<dyn Any + Send>) -> Crash {
    if let Some(b) = p.downcast_ref::<BudgetTrip>() {
        Crash::Budget(b.0, b.1.to_string())
    } else if let Some(s) = p.downcast_ref::<&str>() {
        Crash::Panic(s.to_string())
    } else if let Some(s) = p.downcast_ref::<String>() {
        Crash::Panic(s.clone())
    } else {
        Crash::Panic("<non-string panic payload>".into())
    }
}

fn node_main(seed: [u64; 4], cmd_rx: Receiver<Cmd>, reply_tx: Sender<Reply>, resume_rx: Receiver<()>) {
    entropy::bind(seed);
    QUIET.with(|q| q.set(true));
    YIELD.with(|y| *y.borrow_mut() = Some((reply_tx.clone(), resume_rx)));
    if let Some(f) = NODE_INIT.get() {
        f();
    }
    while let Ok(cmd) = cmd_rx.recv() {
        match cmd {
            Cmd::Exit => break,
            Cmd::Run(job, opts) => {
                TICKS.with(|c| c.set(0));
                ALL_TICKS.with(|c| c.set(0));
                TICK_BUDGET.with(|c| c.set(opts.tick_budget));
                PREEMPT_AT.with(|c| c.set(opts.preempt_at.unwrap_or(u64::MAX)));
                PREEMPT_SITE.with(|c| c.set(opts.preempt_site));
                PREEMPTED.with(|c| c.set(0));
                let e0 = entropy::stats();
                if opts.eintr != 0 || opts.short_reads != 0 {
                    entropy::fault(opts.eintr, opts.short_reads);
                }
                ALLOC_BYTES.with(|c| c.set(0));
                ALLOC_MAX.with(|c| c.set(0));
                let r = std::panic::catch_unwind(std::panic::AssertUnwindSafe(job));
                let alloc_bytes = ALLOC_BYTES.with(|c| c.get());
                let alloc_max = ALLOC_MAX.with(|c| c.get());
                entropy::fault(0, 0);
                let e1 = entropy::stats();
                let out = RawOutcome {
                    result: r.map_err(crash_of),
                    ticks: TICKS.with(|c| c.get()),
                    alloc_bytes,
                    alloc_max,
                    ent: (e1.0 - e0.0, e1.1 - e0.1, e1.2 - e0.2, e1.3 - e0.3),
                    preempted: PREEMPTED.with(|c| c.get()),
                };
                TICK_BUDGET.with(|c| c.set(0));
                PREEMPT_AT.with(|c| c.set(u64::MAX));
                PREEMPT_SITE.with(|c| c.set(None));
                if reply_tx.send(Reply::Done(out)).is_err() {
                    break;
                }
            }
        }
    }
    YIELD.with(|y| *y.borrow_mut() = None);
}

pub type NodeId = usize;
type Cont = Box<dyn FnOnce(&mut Cx, RawOutcome)>;

enum Pending {
    Step { label: String, job: Job, opts: StepOpts, cont: Cont },
    /// crash-restart marker: takes effect when everything queued before it has run
    Restart,
}

struct Node {
    name: String,
    inc: u32,
    cmd_tx: Sender<Cmd>,
    resume_tx: Sender<()>,
    reply_rx: Receiver<Reply>,
    join: Option<JoinHandle<()>>,
    queue: VecDeque<Pending>,
    parked: Option<(String, Cont)>,
    /// inside a library call right now (set between hand-over and reply)
    busy: bool,
}

#[derive(Clone, Debug)]
pub struct Violation {
    /// catalogue item (delivered frame) the violation was observed on, if any
    pub item: Option<u64>,
    pub property: String,
    /// stable identity of *what* fails (entry point / fault class / field path): used to
    /// match known findings and to keep the violation class fixed while minimising
    pub key: String,
    pub detail: String,
}

/// Context of one run.
pub struct Cx {
    pub run_seed: u64,
    pub run_index: u64,
    pub thorough: bool,
    pub ch: Chooser,
    nodes: Vec<Node>,
    hasher: Sha256,
    sched_hasher: Sha256,
    pub trace: Vec<String>,
    pub trace_cap: usize,
    pub counters: BTreeMap<String, u64>,
    pub cells: BTreeSet<String>,
    /// hashes of distinct non-trivial cases evaluated by an oracle
    pub case_set: BTreeSet<u64>,
    pub violations: Vec<Violation>,
    pub steps: u64,
    pub preemptions_left: u32,
    /// while set, a parked call is resumed only when no other node has a queued step: the
    /// scenario decides what runs inside the window of a forced preemption
    pub starve_parked: bool,
    only_node: Option<NodeId>,
    pub preemptions_done: u32,
    pub restarts: u32,
    pub nodes_spawned: u32,
    /// catalogue items: every faulted frame a scenario delivers gets a number; a replay may
    /// focus on one of them (all other items are skipped, the fault-free session still runs)
    pub item_counter: u64,
    pub focus: Option<u64>,
    pub cur_item: Option<u64>,
}

impl Cx {
    pub fn new(run_seed: u64, run_index: u64, thorough: bool, ch: Chooser) -> Self {
        Cx {
            run_seed,
            run_index,
            thorough,
            ch,
            nodes: Vec::new(),
            hasher: Sha256::new(),
            sched_hasher: Sha256::new(),
            trace: Vec::new(),
            trace_cap: std::env::var("ZKSIM_TRACE_CAP").ok().and_then(|s| s.parse().ok()).unwrap_or(400),
            counters: BTreeMap::new(),
            cells: BTreeSet::new(),
            case_set: BTreeSet::new(),
            violations: Vec::new(),
            steps: 0,
            preemptions_left: 0,
            starve_parked: false,
            only_node: None,
            preemptions_done: 0,
            restarts: 0,
            nodes_spawned: 0,
            item_counter: 0,
            focus: None,
            cur_item: None,
        }
    }

    pub fn log(&mut self, line: String) {
        self.hasher.update((line.len() as u64).to_le_bytes());
        self.hasher.update(line.as_bytes());
        if self.trace.len() < self.trace_cap {
            self.trace.push(line);
        }
    }
    pub fn count(&mut self, key: &str) {
        *self.counters.entry(key.to_string()).or_insert(0) += 1;
    }
    pub fn add(&mut self, key: &str, n: u64) {
        *self.counters.entry(key.to_string()).or_insert(0) += n;
    }
    /// one oracle evaluation; `content` identifies the case (statement + delivered bytes),
    /// `nontrivial` = it reached a verifying/decoding step of the library
    pub fn eval(&mut self, content: &[&[u8]], nontrivial: bool) {
        self.count("eval");
        if nontrivial {
            let mut h = Sha256::new();
            for c in content {
                h.update((c.len() as u64).to_le_bytes());
                h.update(c);
            }
            let d = h.finalize();
            self.case_set.insert(u64::from_le_bytes(d[..8].try_into().unwrap()));
        }
    }
    pub fn cell(&mut self, cell: String) {
        self.cells.insert(cell);
    }
    pub fn violation(&mut self, property: &str, key: String, detail: String) {
        self.log(format!("VIOLATION {property} {key} :: {detail}"));
        self.violations.push(Violation { item: self.cur_item, property: property.to_string(), key, detail });
    }
    /// Number the next catalogue item; None = skipped because the run is focused elsewhere.
    pub fn item(&mut self) -> Option<u64> {
        let id = self.item_counter;
        self.item_counter += 1;
        match self.focus {
            Some(f) if f != id => None,
            _ => Some(id),
        }
    }
    pub fn log_hash(&self) -> String {
        hex(&self.hasher.clone().finalize()[..16])
    }
    pub fn sched_hash(&self) -> String {
        hex(&self.sched_hasher.clone().finalize()[..16])
    }

    fn spawn_thread(&self, name: &str, inc: u32) -> (Sender<Cmd>, Sender<()>, Receiver<Reply>, JoinHandle<()>) {
        let seed = derive4(self.run_seed, &[b"entropy", name.as_bytes(), &inc.to_le_bytes()]);
        let (cmd_tx, cmd_rx) = channel::<Cmd>();
        let (reply_tx, reply_rx) = channel::<Reply>();
        let (resume_tx, resume_rx) = channel::<()>();
        let join = std::thread::Builder::new()
            .name(format!("node-{name}-{inc}"))
            .stack_size(8 << 20)
            .spawn(move || node_main(seed, cmd_rx, reply_tx, resume_rx))
            .expect("spawn node thread");
        (cmd_tx, resume_tx, reply_rx, join)
    }

    /// A new node = a fresh OS thread with fresh TLS and its own entropy stream.
    pub fn node(&mut self, name: &str) -> NodeId {
        let (cmd_tx, resume_tx, reply_rx, join) = self.spawn_thread(name, 0);
        self.nodes.push(Node {
            name: name.to_string(),
            inc: 0,
            cmd_tx,
            resume_tx,
            reply_rx,
            join: Some(join),
            queue: VecDeque::new(),
            parked: None,
            busy: false,
        });
        self.nodes_spawned += 1;
        self.log(format!("spawn {name}#0"));
        self.nodes.len() - 1
    }
    pub fn node_name(&self, n: NodeId) -> String {
        format!("{}#{}", self.nodes[n].name, self.nodes[n].inc)
    }

    /// Crash and restart at a step boundary: the thread (and with it every in-memory value
    /// and the thread-local RNG) is gone; the new incarnation gets a new entropy stream.
    /// What the node remembers is the scenario's business (it reloads from its store).
    pub fn restart(&mut self, n: NodeId) {
        self.nodes[n].queue.push_back(Pending::Restart);
    }

    fn do_restart(&mut self, n: NodeId) {
        assert!(self.nodes[n].parked.is_none(), "restart of a parked node");
        let _ = self.nodes[n].cmd_tx.send(Cmd::Exit);
        if let Some(j) = self.nodes[n].join.take() {
            let _ = j.join();
        }
        let inc = self.nodes[n].inc + 1;
        let name = self.nodes[n].name.clone();
        let (cmd_tx, resume_tx, reply_rx, join) = self.spawn_thread(&name, inc);
        let node = &mut self.nodes[n];
        node.inc = inc;
        node.cmd_tx = cmd_tx;
        node.resume_tx = resume_tx;
        node.reply_rx = reply_rx;
        node.join = Some(join);
        self.restarts += 1;
        self.count("fault.crash_restart");
        self.log(format!("restart {name}#{inc}"));
    }

    /// Queue a step on a node; `cont` runs on the coordinator when the step has finished.
    pub fn step<T: Send + 'static>(
        &mut self,
        n: NodeId,
        label: &str,
        opts: StepOpts,
        job: impl FnOnce() -> T + Send + 'static,
        cont: impl FnOnce(&mut Cx, Step<T>) + 'static,
    ) {
        let job: Job = Box::new(move || Box::new(job()) as AnyBox);
        let cont: Cont = Box::new(move |cx, raw| {
            let out = match raw.result {
                Ok(b) => Ok(*b.downcast::<T>().expect("step result type")),
                Err(c) => Err(c),
            };
            cont(
                cx,
                Step { out, ticks: raw.ticks, alloc_bytes: raw.alloc_bytes, alloc_max: raw.alloc_max, ent: raw.ent, preempted: raw.preempted },
            )
        });
        self.nodes[n].queue.push_back(Pending::Step { label: label.to_string(), job, opts, cont });
    }

    /// Free-running burst: the given steps are released on their (idle) nodes AT THE SAME TIME and
    /// run truly concurrently; the coordinator then collects the outcomes in the order given and
    /// calls the continuations in that order.  This is the one place where the baton is relaxed:
    /// it exists to expose state shared between library calls that are in flight together when the
    /// library itself offers no point at which the scheduler could park a call (no loop with a tick,
    /// or its own worker threads).  A race-free library yields the same outcomes as the serial
    /// order, so the event log stays reproducible; a failure found here may not replay.
    pub fn burst<T: Send + 'static>(
        &mut self,
        steps: Vec<(NodeId, Box<dyn FnOnce() -> T + Send>)>,
        label: &str,
        cont: impl FnOnce(&mut Cx, Vec<Step<T>>) + 'static,
    ) {
        // drain whatever is queued first: a burst starts from idle nodes
        self.run();
        let mut nodes_used = Vec::new();
        for (n, job) in steps {
            assert!(self.nodes[n].parked.is_none() && self.nodes[n].queue.is_empty());
            let job: Job = Box::new(move || Box::new(job()) as AnyBox);
            self.steps += 1;
            let _ = self.nodes[n].cmd_tx.send(Cmd::Run(job, StepOpts::default()));
            nodes_used.push(n);
        }
        self.count("sched.burst");
        let mut outs = Vec::new();
        for n in nodes_used {
            let who = self.node_name(n);
            match self.nodes[n].reply_rx.recv() {
                Ok(Reply::Done(raw)) => {
                    self.log(format!("burst {who} {label} -> {}", match &raw.result { Ok(_) => "returned".to_string(), Err(c) => format!("{c:?}") }));
                    let out = match raw.result { Ok(b) => Ok(*b.downcast::<T>().expect("burst result type")), Err(c) => Err(c) };
                    outs.push(Step { out, ticks: raw.ticks, alloc_bytes: raw.alloc_bytes, alloc_max: raw.alloc_max, ent: raw.ent, preempted: raw.preempted });
                }
                Ok(Reply::Yielded(..)) => unreachable!("burst steps are not preempted"),
                Err(_) => { eprintln!("zksim: node thread {who} vanished (harness error)"); std::process::exit(2); }
            }
        }
        cont(self, outs);
    }

    /// Run node `n` alone until its current call parks at a forced preemption point (or its
    /// queue is empty); what runs inside the window is then up to the scenario.
    pub fn run_until_parked(&mut self, n: NodeId) {
        self.only_node = Some(n);
        self.run();
        self.only_node = None;
    }

    /// Drive the run until no node has anything left to do.
    pub fn run(&mut self) {
        loop {
            let mut cands: Vec<NodeId> = (0..self.nodes.len())
                .filter(|&i| !self.nodes[i].busy && (self.nodes[i].parked.is_some() || !self.nodes[i].queue.is_empty()))
                .collect();
            if cands.is_empty() {
                break;
            }
            if let Some(n) = self.only_node {
                if self.nodes[n].parked.is_some() || self.nodes[n].queue.is_empty() {
                    break;
                }
                cands = vec![n];
            }
            if self.starve_parked && cands.iter().any(|&i| self.nodes[i].parked.is_none()) {
                cands.retain(|&i| self.nodes[i].parked.is_none());
            }
            let pick = if cands.len() == 1 { 0 } else { self.ch.choose("sched", cands.len() as u64) as usize };
            let n = cands[pick];
            let (label, cont) = if let Some((label, cont)) = self.nodes[n].parked.take() {
                let _ = self.nodes[n].resume_tx.send(());
                (label, cont)
            } else {
                let (label, job, mut opts, cont) = match self.nodes[n].queue.pop_front().unwrap() {
                    Pending::Restart => {
                        self.do_restart(n);
                        continue;
                    }
                    Pending::Step { label, job, opts, cont } => (label, job, opts, cont),
                };
                if opts.preempt_at.is_none() && opts.preempt_site.is_none() && self.preemptions_left > 0 && self.nodes.len() > 1 {
                    // PCT-style: a small number of preemption points per run
                    if self.ch.chance("preempt?", 1, 4) {
                        let at = 1 + self.ch.choose("preempt_at", 48);
                        opts.preempt_at = Some(at);
                    }
                }
                self.steps += 1;
                let _ = self.nodes[n].cmd_tx.send(Cmd::Run(job, opts));
                (label, cont)
            };
            self.nodes[n].busy = true;
            let who = self.node_name(n);
            self.sched_hasher.update(who.as_bytes());
            self.sched_hasher.update(label.as_bytes());
            // The baton is with node n.  If it does not come back for a long (real) time while
            // another node is parked inside a call, n is taken to be blocked on a lock the parked
            // call holds (only code that holds a lock across a tick can do that; the pinned
            // library has none): the parked call is resumed so that both can finish, as any
            // real scheduler would eventually do.  Never taken on a library without such locks.
            let waiting_since = std::time::Instant::now();
            let reply = loop {
                match self.nodes[n].reply_rx.recv_timeout(blocked_after()) {
                    Ok(r) => break r,
                    Err(std::sync::mpsc::RecvTimeoutError::Timeout) => {
                        let Some(p) = (0..self.nodes.len()).find(|&i| i != n && self.nodes[i].parked.is_some()) else {
                            // a call that never returns and reports no work: the run cannot be
                            // decided (harness error, exit 2), better than hanging the batch
                            if waiting_since.elapsed().as_secs() > step_timeout_s() {
                                eprintln!("zksim: {who} {label} has not returned after {} s and nothing is parked (run {} of the batch; harness error)", step_timeout_s(), self.run_index);
                                std::process::exit(2);
                            }
                            continue;
                        };
                        let pw = self.node_name(p);
                        self.log(format!("{who} {label} has not returned: taken to be blocked on a lock held by parked {pw}; resuming {pw}"));
                        self.count("sched.blocked_on_lock_held_by_parked_call");
                        let (plabel, pcont) = self.nodes[p].parked.take().unwrap();
                        self.nodes[p].busy = true;
                        let _ = self.nodes[p].resume_tx.send(());
                        match self.nodes[p].reply_rx.recv() {
                            Ok(r) => self.handle_reply(p, plabel, pcont, r),
                            Err(_) => {
                                eprintln!("zksim: node thread {pw} vanished (harness error)");
                                std::process::exit(2);
                            }
                        }
                    }
                    Err(_) => {
                        // node thread died outside catch_unwind: harness error
                        eprintln!("zksim: node thread {who} vanished (harness error)");
                        std::process::exit(2);
                    }
                }
            };
            self.handle_reply(n, label, cont, reply);
        }
    }

    fn handle_reply(&mut self, n: NodeId, label: String, cont: Cont, reply: Reply) {
        let who = self.node_name(n);
        self.nodes[n].busy = false;
        match reply {
            Reply::Done(raw) => {
                self.log(format!(
                    "step {who} {label} -> {} ticks={} ent={}B",
                    match &raw.result {
                        Ok(_) => "returned".to_string(),
                        Err(c) => format!("{c:?}"),
                    },
                    raw.ticks,
                    raw.ent.1
                ));
                if raw.ent.2 > 0 {
                    self.add("fault.entropy_eintr", raw.ent.2);
                }
                if raw.ent.3 > 0 {
                    self.add("fault.entropy_short_read", raw.ent.3);
                }
                cont(self, raw);
            }
            Reply::Yielded(t, site) => {
                self.sched_hasher.update(b"yield");
                self.log(format!("preempt {who} {label} at tick {t} in {site}"));
                self.count("sched.preemption");
                self.count(&format!("probe.preempted_inside.{site}"));
                self.preemptions_done += 1;
                self.preemptions_left = self.preemptions_left.saturating_sub(1);
                self.nodes[n].parked = Some((label, cont));
            }
        }
    }

    pub fn shutdown(&mut self) {
        for n in &mut self.nodes {
            let _ = n.cmd_tx.send(Cmd::Exit);
        }
        for n in &mut self.nodes {
            if let Some(j) = n.join.take() {
                let _ = j.join();
            }
        }
        self.nodes.clear();
    }
}

impl Drop for Cx {
    fn drop(&mut self) {
        self.shutdown();
    }
}

pub fn hex(b: &[u8]) -> String {
    let mut s = String::with_capacity(b.len() * 2);
    for x in b {
        s.push_str(&format!("{x:02x}"));
    }
    s
}
