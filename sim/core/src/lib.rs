pub mod choice;
pub mod entropy;
pub mod prng;
pub mod runner;
pub mod sim;
pub mod wire;
