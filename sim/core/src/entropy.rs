//! Binding to the LD_PRELOAD entropy shim (shim/entropy_shim.c).
use std::ffi::CString;
use std::os::unix::process::CommandExt;

type BindFn = unsafe extern "C" fn(*const u64);
type VoidFn = unsafe extern "C" fn();
type FaultFn = unsafe extern "C" fn(i32, i32);
type StatFn = unsafe extern "C" fn(i32) -> u64;
type HsFn = unsafe extern "C" fn() -> i32;

fn sym(name: &str) -> *mut libc::c_void {
    let c = CString::new(name).unwrap();
    unsafe { libc::dlsym(libc::RTLD_DEFAULT, c.as_ptr()) }
}

pub fn shim_loaded() -> bool {
    let p = sym("zkent_handshake");
    if p.is_null() {
        return false;
    }
    let f: HsFn = unsafe { std::mem::transmute(p) };
    unsafe { f() == 0x5a4b }
}

/// Make sure the shim is in the process; if not, re-exec ourselves with LD_PRELOAD set.
/// Exits 2 (harness error) if that is impossible.
pub fn ensure_shim() {
    if shim_loaded() {
        return;
    }
    if std::env::var_os("ZKSIM_REEXEC").is_some() {
        eprintln!("zksim: entropy shim not honoured by the dynamic loader (harness error)");
        std::process::exit(2);
    }
    let path = std::env::var("ZKSIM_SHIM").unwrap_or_else(|_| "/verif/build/libzkent.so".to_string());
    if !std::path::Path::new(&path).exists() {
        eprintln!("zksim: {} missing; run ./zk setup (harness error)", path);
        std::process::exit(2);
    }
    let exe = std::env::current_exe().expect("current_exe");
    let err = std::process::Command::new(exe)
        .args(std::env::args_os().skip(1))
        .env("LD_PRELOAD", &path)
        .env("ZKSIM_REEXEC", "1")
        .exec();
    eprintln!("zksim: re-exec failed: {err}");
    std::process::exit(2);
}

pub fn bind(seed: [u64; 4]) {
    let f: BindFn = unsafe { std::mem::transmute(sym("zkent_bind")) };
    unsafe { f(seed.as_ptr()) }
}
pub fn unbind() {
    let f: VoidFn = unsafe { std::mem::transmute(sym("zkent_unbind")) };
    unsafe { f() }
}
/// Inject legal kernel behaviour on the calling thread's stream.
pub fn fault(eintr: i32, short_reads: i32) {
    let f: FaultFn = unsafe { std::mem::transmute(sym("zkent_fault")) };
    unsafe { f(eintr, short_reads) }
}
/// (calls, bytes, eintr injected, short reads injected) on the calling thread
pub fn stats() -> (u64, u64, u64, u64) {
    let f: StatFn = unsafe { std::mem::transmute(sym("zkent_stat")) };
    unsafe { (f(0), f(1), f(2), f(3)) }
}
