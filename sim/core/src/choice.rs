//! Every decision of a run -- workload shape, fault selection, schedule -- is a
//! labelled bounded integer drawn here.  In `Random` mode the values come from the
//! run PRNG and are recorded; in `Replay` mode they are read back from an explicit
//! list (exhausted or out-of-range entries read as 0), which is what makes a run a
//! pure function of (code, run_seed, choice list) and what the minimiser shrinks.
use crate::prng::Xo;

#[derive(Clone, Debug, PartialEq, Eq)]
pub struct Choice {
    pub label: String,
    pub bound: u64,
    pub value: u64,
}

pub enum Mode {
    Random(Xo),
    Replay { list: Vec<u64>, pos: usize },
}

pub struct Chooser {
    mode: Mode,
    pub rec: Vec<Choice>,
    pub overrun: bool,
}

impl Chooser {
    pub fn random(seed: u64) -> Self {
        Chooser { mode: Mode::Random(Xo::new(seed, &[b"chooser"])), rec: Vec::new(), overrun: false }
    }
    pub fn replay(list: Vec<u64>) -> Self {
        Chooser { mode: Mode::Replay { list, pos: 0 }, rec: Vec::new(), overrun: false }
    }
    /// value in 0..bound (bound >= 1)
    pub fn choose(&mut self, label: &str, bound: u64) -> u64 {
        let bound = bound.max(1);
        let v = match &mut self.mode {
            Mode::Random(x) => x.below(bound),
            Mode::Replay { list, pos } => {
                let v = if *pos < list.len() { list[*pos] } else { self.overrun = true; 0 };
                *pos += 1;
                if v >= bound { bound - 1 } else { v }
            }
        };
        self.rec.push(Choice { label: label.to_string(), bound, value: v });
        v
    }
    /// A value imposed from outside the PRNG (enumeration index of this run); recorded so
    /// that a replay reads it back.
    pub fn forced(&mut self, label: &str, bound: u64, value: u64) -> u64 {
        let bound = bound.max(1);
        let v = match &mut self.mode {
            Mode::Random(_) => value % bound,
            Mode::Replay { list, pos } => {
                let v = if *pos < list.len() { list[*pos] } else { self.overrun = true; 0 };
                *pos += 1;
                if v >= bound { bound - 1 } else { v }
            }
        };
        self.rec.push(Choice { label: label.to_string(), bound, value: v });
        v
    }
    pub fn chance(&mut self, label: &str, num: u64, den: u64) -> bool {
        // value 0 = "no" so that shrinking toward 0 removes optional behaviour
        let v = self.choose(label, den);
        v >= den - num.min(den)
    }
    pub fn range(&mut self, label: &str, lo: u64, hi_incl: u64) -> u64 {
        lo + self.choose(label, hi_incl - lo + 1)
    }
    /// pick from a weighted table; index 0 should be the simplest alternative
    pub fn weighted(&mut self, label: &str, weights: &[u64]) -> usize {
        let total: u64 = weights.iter().sum();
        let mut v = self.choose(label, total);
        for (i, w) in weights.iter().enumerate() {
            if v < *w {
                return i;
            }
            v -= *w;
        }
        weights.len() - 1
    }
    pub fn values(&self) -> Vec<u64> {
        self.rec.iter().map(|c| c.value).collect()
    }
}
