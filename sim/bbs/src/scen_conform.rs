//! C10: op-by-op refinement against the executable spec model while 1..16 nodes perform
//! deterministic operations interleaved by the scheduler (with tick preemption inside
//! create_generators / messages_to_scalar).  Output octets and Ok/Err decisions must equal
//! the model's, and equal the same operation executed alone on a fresh thread.
use crate::api::{self, Bytes, Opt, Suite};
use crate::common::*;
use crate::refmodel as rm;
use crate::scen_robust::{make_honest, Honest};
use crate::with_suite;
use std::sync::Arc;
use zksim_core::prng::bytes_for;
use zksim_core::sim::{Cx, NodeId, StepOpts};
use zksim_core::wire::{flip, ListFault, OctFault};
use zkryptium::bbsplus::ciphersuites::BbsCiphersuite;
use zkryptium::utils::message::bbsplus_message::BBSplusMessage;
use zkryptium::utils::util::bbsplus_utils::hash_to_scalar;

/// a deterministic operation: (label, library side run on a node, model side run by the monitor)
type LibFn = Box<dyn Fn() -> Result<Vec<u8>, String> + Send + Sync>;
type ModelFn = Box<dyn Fn() -> Result<Vec<u8>, String>>;

struct Op { label: String, lib: Arc<LibFn>, model: ModelFn, compare_octets: bool }

fn pick_len(cx: &mut Cx, label: &str, opts: &[usize]) -> usize { opts[cx.ch.choose(label, opts.len() as u64) as usize] }

fn gen_op(cx: &mut Cx, k: u64, h: &Arc<Honest>) -> Op {
    let s = Suite::from_idx(cx.ch.choose("op_suite", 2));
    let seed = cx.run_seed;
    let big = cx.thorough;
    match cx.ch.weighted("op_kind", &[3, 3, 3, 2, 3, 2, 6]) {
        0 => {
            // KeyGen + SkToPk, including the size limits
            let ikm = bytes_for(seed, b"c10-ikm", k, pick_len(cx, "ikm_len", &[32, 0, 31, 33, 64, 200]));
            let info: Opt = match cx.ch.choose("info_kind", 7) { 0 => None, 1 => Some(vec![]), 2 => Some(bytes_for(seed, b"c10-info", k, 1)), 3 => Some(bytes_for(seed, b"c10-info", k, 255)), 4 => Some(bytes_for(seed, b"c10-info", k, 256)), 5 => Some(bytes_for(seed, b"c10-info", k, 65535)), _ => Some(bytes_for(seed, b"c10-info", k, 65536)) };
            let dst: Opt = match cx.ch.choose("dst_kind", 5) { 0 => None, 1 => Some(bytes_for(seed, b"c10-dst", k, 1)), 2 => Some(bytes_for(seed, b"c10-dst", k, 255)), 3 => Some(bytes_for(seed, b"c10-dst", k, 256)), _ => Some(bytes_for(seed, b"c10-dst", k, 40)) };
            let (i1, n1, d1) = (ikm.clone(), info.clone(), dst.clone());
            Op { label: format!("keygen({},ikm={},info={:?},dst={:?})", s.name(), ikm.len(), info.as_ref().map(|x| x.len()), dst.as_ref().map(|x| x.len())), compare_octets: true,
                lib: Arc::new(Box::new(move || api::keygen(s, &i1, n1.as_deref(), d1.as_deref()).map(|(a, b)| [a, b].concat()))),
                model: Box::new(move || { let sk = rm::keygen(s, &ikm, info.as_deref().unwrap_or(&[]), dst.as_deref()).map_err(|e| e.to_string())?; Ok([sk.to_be_bytes().to_vec(), rm::sk_to_pk(&sk).to_vec()].concat()) }) }
        }
        1 => {
            // create_generators(count, api_id)
            let count = if big && cx.ch.chance("huge_count", 1, 12) { 1000 + cx.ch.choose("count_h", 100) as usize } else { match cx.ch.weighted("count_kind", &[6, 2, 1]) { 0 => cx.ch.choose("count", 12) as usize, 1 => 12 + cx.ch.choose("count_m", 53) as usize, _ => pick_len(cx, "count_b", &[255, 256, 257]) } };
            let api: Opt = match cx.ch.choose("api_kind", 5) { 0 => Some(rm::api_id(s, false)), 1 => Some(rm::api_id(s, true)), 2 => Some([b"BLIND_".to_vec(), rm::api_id(s, true)].concat()), 3 => None, _ => Some(bytes_for(seed, b"c10-api", k, 1 + cx.ch.choose("api_len", 200) as usize)) };
            let a1 = api.clone();
            Op { label: format!("create_generators({},{count},api_id={:?})", s.name(), api.as_ref().map(|x| x.len())), compare_octets: true,
                lib: Arc::new(Box::new(move || Ok(api::generators(s, count, a1.as_deref()).concat()))),
                model: Box::new(move || { use group::Curve; Ok(rm::create_generators(s, count, api.as_deref().unwrap_or(&[])).map_err(|e| e.to_string())?.iter().flat_map(|p| p.to_affine().to_compressed()).collect()) }) }
        }
        2 => {
            // messages_to_scalars
            let n = cx.ch.choose("mts_n", 6) as usize;
            let msgs: Vec<Bytes> = (0..n).map(|i| bytes_for(seed, b"c10-m", k * 100 + i as u64, pick_len(cx, "mts_len", &[5, 0, 1, 32, 48, 49, 255, 256, 1000]))).collect();
            let blind = cx.ch.chance("mts_blind", 1, 2);
            let m1 = msgs.clone();
            Op { label: format!("messages_to_scalars({},{n} msgs,blind={blind})", s.name()), compare_octets: true,
                lib: Arc::new(Box::new(move || with_suite!(s, CS, { let api = if blind { <CS as BbsCiphersuite>::API_ID_BLIND } else { <CS as BbsCiphersuite>::API_ID }; Ok(BBSplusMessage::messages_to_scalar::<CS>(&m1, api).map_err(|e| format!("{e:?}"))?.iter().flat_map(|m| m.to_bytes_be()).collect()) }))),
                model: Box::new(move || Ok(rm::messages_to_scalars(s, &msgs, &rm::api_id(s, blind)).map_err(|e| e.to_string())?.iter().flat_map(|x| x.to_be_bytes()).collect())) }
        }
        3 => {
            // hash_to_scalar(msg, dst) incl. the DST limit
            let msg = bytes_for(seed, b"c10-h2s", k, pick_len(cx, "h2s_len", &[7, 0, 1, 63, 64, 65, 300]));
            let dst = bytes_for(seed, b"c10-h2s-dst", k, pick_len(cx, "h2s_dst", &[16, 1, 254, 255, 256, 300]));
            let (m1, d1) = (msg.clone(), dst.clone());
            Op { label: format!("hash_to_scalar({},msg={},dst={})", s.name(), msg.len(), dst.len()), compare_octets: true,
                lib: Arc::new(Box::new(move || with_suite!(s, CS, Ok(hash_to_scalar::<CS>(&m1, &d1).map_err(|e| format!("{e:?}"))?.to_be_bytes().to_vec())))),
                model: Box::new(move || Ok(rm::hash_to_scalar(s, &msg, &dst).map_err(|e| e.to_string())?.to_be_bytes().to_vec())) }
        }
        4 => {
            // Sign
            let l = match cx.ch.weighted("sign_L", &[8, 1, if big { 1 } else { 0 }]) { 0 => cx.ch.choose("sign_l", 8) as usize, 1 => pick_len(cx, "sign_lb", &[255, 256, 257, 128, 129, 64, 65, 32, 33, 258, 1024, 1025, 2047, 2048, 2049, 4097]), _ => 1000 };
            let long_msg = if l > 0 && cx.ch.chance("sign_long_message", 1, 5) { Some((cx.ch.choose("sign_long_at", 2) as usize * (l - 1), pick_len(cx, "sign_long_len", &[1024, 4096, 4097, 10000]))) } else { None };
            let msgs: Vec<Bytes> = (0..l).map(|i| bytes_for(seed, b"c10-sm", k * 10000 + i as u64, match long_msg { Some((at, n)) if at == i => n, _ => 1 + i % 17 })).collect();
            let header: Opt = match cx.ch.choose("sign_hdr", 6) { 0 => None, 1 => Some(vec![]), 2 => Some(bytes_for(seed, b"c10-h", k, 16)), 3 => Some(bytes_for(seed, b"c10-h", k, 255)), 4 => Some(bytes_for(seed, b"c10-h", k, 256)), _ => Some(bytes_for(seed, b"c10-h", k, if big && cx.ch.chance("sign_hdr_64k", 1, 3) { 65536 } else { pick_len(cx, "sign_hdr_len", &[300, 4096, 4097, 6000, 1023, 1024, 1025]) })) };
            let ikm = bytes_for(seed, b"c10-sk", k, 32);
            // (the IETF fixtures sign under a public key that is not the secret key's: signature007)
            let foreign_pk = cx.ch.chance("sign_foreign_pk", 1, 6);
            let (m1, h1, i1) = (msgs.clone(), header.clone(), ikm.clone());
            Op { label: format!("sign({},L={l},header={:?})", s.name(), header.as_ref().map(|x| x.len())), compare_octets: true,
                lib: Arc::new(Box::new(move || { let (sk, pk) = api::keygen(s, &i1, None, None)?; let pk = if foreign_pk { api::keygen(s, &[i1.clone(), vec![1]].concat(), None, None)?.1 } else { pk }; api::sign(s, &sk, &pk, &h1, &Some(m1.clone())) })),
                model: Box::new(move || { let sk = rm::keygen(s, &ikm, &[], None).map_err(|e| e.to_string())?; let pk = if foreign_pk { rm::sk_to_pk(&rm::keygen(s, &[ikm.clone(), vec![1]].concat(), &[], None).map_err(|e| e.to_string())?) } else { rm::sk_to_pk(&sk) }; Ok(rm::sign(s, &sk, &pk, header.as_deref().unwrap_or(&[]), &msgs).map_err(|e| e.to_string())?.to_bytes().to_vec()) }) }
        }
        5 => {
            // BlindSign on the run's fixed request (and without a request)
            let hh = h.clone();
            let with = cx.ch.chance("bs_with_commit", 2, 3);
            let l = cx.ch.choose("bs_l", 5) as usize;
            let msgs: Vec<Bytes> = (0..l).map(|i| bytes_for(seed, b"c10-bm", k * 100 + i as u64, 3 + i)).collect();
            let header: Opt = if cx.ch.chance("bs_hdr", 1, 2) { Some(bytes_for(seed, b"c10-bh", k, 9)) } else { None };
            let s = h.suite;
            // the public key only enters BlindSign as octets in the domain: also with a key that
            // is not the secret key's (the draft does not ask the signer to check that)
            let foreign = cx.ch.chance("bs_foreign_pk", 1, 3);
            let pk_used: Bytes = if foreign { rm::sk_to_pk(&rm::keygen(s, &bytes_for(seed, b"c10-foreign", k, 32), &[], None).unwrap()).to_vec() } else { hh.pk.clone() };
            let (m1, h1, hh1, pk1) = (msgs.clone(), header.clone(), hh.clone(), pk_used.clone());
            Op { label: format!("blind_sign({},L={l},commit={with},foreign_pk={foreign})", s.name()), compare_octets: true,
                lib: Arc::new(Box::new(move || api::blind_sign(s, &hh1.sk, &pk1, &if with { Some(hh1.cwp.clone()) } else { None }, &h1, &Some(m1.clone())))),
                model: Box::new(move || { let sk = rm::octets_to_scalar(&hh.sk).map_err(|e| e.to_string())?; let pk: [u8; 96] = pk_used.as_slice().try_into().unwrap(); Ok(rm::blind_sign(s, &sk, &pk, if with { &hh.cwp } else { &[] }, header.as_deref().unwrap_or(&[]), &msgs).map_err(|e| e.to_string())?.to_bytes().to_vec()) }) }
        }
        _ => gen_decision_op(cx, k, h),
    }
}

/// accept/reject decisions of the four verifiers on honest and mutated artefacts
fn gen_decision_op(cx: &mut Cx, _k: u64, h: &Arc<Honest>) -> Op {
    let s0 = h.suite;
    let seed = cx.run_seed;
    let mut s = s0;
    let (mut pk, mut sig, mut proof, mut cwp, mut bsig, mut bproof) = (h.pk.clone(), h.sig.clone(), h.proof.clone(), h.cwp.clone(), h.bsig.clone(), h.bproof.clone());
    let (mut header, mut ph) = (h.header.clone(), h.ph.clone());
    let (mut msgs, mut committed) = (h.msgs.clone(), h.committed.clone());
    let mut dm: Vec<Bytes> = h.didx.iter().map(|&i| h.msgs[i].clone()).collect();
    let mut dcm: Vec<Bytes> = h.dcidx.iter().map(|&i| h.committed[i].clone()).collect();
    let (mut didx, mut dcidx) = (h.didx.clone(), h.dcidx.clone());
    let mut l = h.msgs.len();
    let mut blind = h.blind.clone();
    let which = cx.ch.choose("verifier", 5);
    // one mutation (or none)
    let mutation = cx.ch.choose("mutation", 20);
    let mut mlabel = "honest".to_string();
    {
        let target: &mut Bytes = match which { 0 => &mut sig, 1 => &mut proof, 2 => &mut cwp, 3 => &mut bsig, _ => &mut bproof };
        match mutation {
            0 => {}
            1 => { let bit = cx.ch.choose("bit", (target.len() * 8) as u64) as usize; flip(target, bit); mlabel = format!("bitflip@{bit}"); }
            2 => { if target.len() >= 32 && which != 0 && which != 3 { target.truncate(target.len() - 32); mlabel = "truncate-scalar".into(); } }
            3 => { if which != 0 && which != 3 { let mut e = bytes_for(seed, b"c10-ext", 0, 32); e[0] &= 0x3f; target.extend_from_slice(&e); mlabel = "extend-scalar".into(); } }
            4 => { OctFault::AlterByte(1).apply(&mut header, seed); mlabel = "header-altered".into(); }
            5 => { OctFault::Toggle.apply(&mut header, seed); OctFault::Toggle.apply(&mut ph, seed); mlabel = "absent<->empty".into(); }
            6 => { OctFault::AlterByte(0).apply(&mut ph, seed); mlabel = "ph-altered".into(); }
            7 => { let lf = ListFault::random(&mut cx.ch, msgs.len()); lf.apply(&mut msgs, seed); mlabel = format!("msgs-{}", lf.kind()); if !dm.is_empty() { dm[0].push(7); } }
            8 => { if !committed.is_empty() { let lf = ListFault::random(&mut cx.ch, committed.len()); lf.apply(&mut committed, seed); mlabel = format!("committed-{}", lf.kind()); } if !dcm.is_empty() { dcm[0].push(7); } }
            9 => { s = s0.other(); mlabel = "other-suite".into(); }
            10 => { let bit = cx.ch.choose("pkbit", 768) as usize; flip(&mut pk, bit); mlabel = format!("pk-bitflip@{bit}"); }
            11 => { l = l + 1; if let Some(b) = blind.last_mut() { *b ^= 1; } mlabel = "L+1 / blind-factor altered".into(); }
            // index lists that are not what the draft takes (ascending, one index per message): the
            // index list alone reordered, an index listed twice with one message, a committed pair
            // claimed through the signer lists at L + 1 + j
            15 => { if didx.len() >= 2 && dm[0] != dm[1] { didx.swap(0, 1); mlabel = "index-list-reordered,messages-as-given".into(); } if dcidx.len() >= 2 && dcm[0] != dcm[1] { dcidx.swap(0, 1); mlabel = "index-list-reordered,messages-as-given".into(); } }
            16 => { if !didx.is_empty() { didx.insert(0, didx[0]); mlabel = "index-duplicated-without-its-message".into(); } if !dcidx.is_empty() { dcidx.insert(0, dcidx[0]); mlabel = "index-duplicated-without-its-message".into(); } }
            17 => { if let (Some(j), Some(c)) = (dcidx.pop(), dcm.pop()) { didx.push(l + 1 + j); dm.push(c); mlabel = "committed-pair-claimed-as-signer-pair".into(); } }
            // one disclosed message MORE than there are indexes (appended after the genuine ones), and
            // one FEWER: length(disclosed_messages) != length(disclosed_indexes) is INVALID in the draft
            18 => { dm.push(bytes_for(seed, b"c10-surplus", 0, 9)); if which == 4 { dcm.push(bytes_for(seed, b"c10-surplus", 1, 9)); } mlabel = "surplus-disclosed-message".into(); }
            19 => { if dm.pop().is_some() || dcm.pop().is_some() { mlabel = "missing-disclosed-message".into(); } }
            // the same key in its 192-octet coordinate form: octets_to_pubkey of the draft knows the 96-octet form only
            14 => { if let Ok((x, y)) = api::pk_to_coordinates(&pk) { pk = [x, y].concat(); mlabel = "pk-in-uncompressed-form".into(); } }
            _ => {
                // one scalar slot re-encoded as x + r (same residue, non-canonical octets) or set to r
                const R_BE: [u8; 32] = [0x73, 0xed, 0xa7, 0x53, 0x29, 0x9d, 0x7d, 0x48, 0x33, 0x39, 0xd8, 0x08, 0x09, 0xa1, 0xd8, 0x05, 0x53, 0xbd, 0xa4, 0x02, 0xff, 0xfe, 0x5b, 0xfe, 0xff, 0xff, 0xff, 0xff, 0x00, 0x00, 0x00, 0x01];
                let first = match which { 0 | 3 => 48, 1 | 4 => 144, _ => 48 };
                let nslots = (target.len() - first) / 32;
                if nslots > 0 {
                    let k = cx.ch.choose("scalar_slot", nslots as u64) as usize;
                    let off = first + 32 * k;
                    if mutation == 12 {
                        let mut carry = 0u16;
                        for i in (0..32).rev() { let v = target[off + i] as u16 + R_BE[i] as u16 + carry; target[off + i] = v as u8; carry = v >> 8; }
                        mlabel = format!("scalar+r@{off}");
                    } else { target[off..off + 32].copy_from_slice(&R_BE); mlabel = format!("scalar=r@{off}"); }
                }
                if which == 3 && mutation == 12 {
                    // also the blind factor as x + r
                    let mut carry = 0u16;
                    for i in (0..32).rev() { let v = blind[i] as u16 + R_BE[i] as u16 + carry; blind[i] = v as u8; carry = v >> 8; }
                }
            }
        }
    }
    let name = ["verify", "proof_verify", "blind_sign(request)", "verify_blind_sign", "blind_proof_verify"][which as usize];
    let hh = h.clone();
    let lib: LibFn = {
        let (pk, sig, proof, cwp, bsig, bproof, header, ph, msgs, committed, dm, dcm, didx, dcidx, blind) = (pk.clone(), sig.clone(), proof.clone(), cwp.clone(), bsig.clone(), bproof.clone(), header.clone(), ph.clone(), msgs.clone(), committed.clone(), dm.clone(), dcm.clone(), didx.clone(), dcidx.clone(), blind.clone());
        Box::new(move || {
            let ok = match which {
                0 => api::verify(s, &pk, &sig, &header, &Some(msgs.clone())).accepted(),
                1 => api::proof_verify(s, &pk, &proof, &header, &ph, &Some(dm.clone()), &Some(didx.clone())).accepted(),
                2 => api::blind_sign(s, &hh.sk, &hh.pk, &Some(cwp.clone()), &header, &Some(msgs.clone())).is_ok(),
                3 => api::verify_blind(s, &pk, &bsig, &header, &Some(msgs.clone()), &Some(committed.clone()), &Some(blind.clone())).accepted(),
                _ => api::blind_proof_verify(s, &pk, &bproof, &header, &ph, Some(l), &Some(dm.clone()), &Some(dcm.clone()), &Some(didx.clone()), &Some(dcidx.clone())).accepted(),
            };
            Ok(vec![ok as u8])
        })
    };
    let hh = h.clone();
    let model: ModelFn = Box::new(move || {
        let hd = header.clone().unwrap_or_default();
        let p = ph.clone().unwrap_or_default();
        let ok = match which {
            0 => rm::verify(s, &pk, &sig, &hd, &msgs).is_ok(),
            1 => rm::proof_verify(s, &pk, &proof, &hd, &p, &dm, &didx).is_ok(),
            2 => { let sk = rm::octets_to_scalar(&hh.sk).unwrap(); let pk96: [u8; 96] = hh.pk.as_slice().try_into().unwrap(); rm::blind_sign(s, &sk, &pk96, &cwp, &hd, &msgs).is_ok() }
            3 => match rm::octets_to_scalar(&blind) { Ok(b) => rm::verify_blind(s, &pk, &bsig, &hd, &msgs, &committed, &b).is_ok(), Err(_) => false },
            _ => rm::blind_proof_verify(s, &pk, &bproof, &hd, &p, l, &dm, &dcm, &didx, &dcidx).is_ok(),
        };
        Ok(vec![ok as u8])
    });
    Op { label: format!("decision:{name}({},{mlabel})", s.name()), lib: Arc::new(lib), model, compare_octets: true }
}

pub fn run_c10(cx: &mut Cx) {
    cx.preemptions_left = cx.ch.choose("preemptions", 5) as u32;
    let k_nodes = match cx.ch.weighted("nodes", &[2, 4, 3, 2]) { 0 => 1, 1 => 2 + cx.ch.choose("nodes_s", 3) as usize, 2 => 5 + cx.ch.choose("nodes_m", 4) as usize, _ => 16 };
    let nodes: Vec<NodeId> = (0..k_nodes).map(|i| cx.node(&format!("n{i}"))).collect();
    let suite = gen_suite(cx);
    let seed = cx.run_seed;
    cx.count(&format!("n.runs_with_{}_nodes", if k_nodes == 1 { "1" } else if k_nodes <= 4 { "2-4" } else if k_nodes <= 8 { "5-8" } else { "16" }));
    let (hk, phk) = (cx.ch.choose("honest_header_kind", 3), cx.ch.choose("honest_ph_kind", 3));
    let (hl, hm) = (1 + cx.ch.choose("honest_L", 5) as usize, cx.ch.choose("honest_M", 4) as usize);
    cx.step(nodes[0], "honest-session", StepOpts::default(), move || crate::scen_robust::make_honest_with(suite, seed, hl, hm, hk, phk), move |cx, st| {
        let h = match st.out { Ok(Ok(h)) => Arc::new(h), other => { cx.violation("C10", "honest-session/failed".into(), format!("an honest key generation / issuance / presentation the model completes failed: {:?}", other.err())); return; } };
        let n_ops = 12 + cx.ch.choose("ops", 20);
        for k in 0..n_ops + 2 {
            // the last two operations of every run walk through ALL generator counts 0..=N (N = 64
            // quick, 1100 thorough) for both suites and the plain api_id, one count per run
            let op = if k >= n_ops {
                let nmax = if cx.thorough { 1101 } else { 65 };
                let count = cx.ch.forced("enumerated_count", nmax, cx.run_index) as usize;
                let s = Suite::from_idx(k - n_ops);
                let api = rm::api_id(s, cx.run_index / nmax % 2 == 1);
                let a1 = api.clone();
                cx.count("n.enumerated_generator_counts");
                Op { label: format!("create_generators({},{count},enumerated)", s.name()), compare_octets: true,
                    lib: Arc::new(Box::new(move || Ok(api::generators(s, count, Some(&a1)).concat()))),
                    model: Box::new(move || { use group::Curve; Ok(rm::create_generators(s, count, &api).map_err(|e| e.to_string())?.iter().flat_map(|p| p.to_affine().to_compressed()).collect()) }) }
            } else { gen_op(cx, k, &h) };
            let node = nodes[cx.ch.choose("on_node", nodes.len() as u64) as usize];
            let lib = op.lib.clone();
            let label = op.label.clone();
            cx.step(node, "op", StepOpts::default(), move || lib(), move |cx, st| {
                let model = (op.model)();
                let got = match &st.out { Ok(r) => r.clone(), Err(c) => Err(format!("crash: {c:?}")) };
                cx.eval(&[op.label.as_bytes(), got.as_ref().map(|v| v.as_slice()).unwrap_or(b"err")], true);
                let kind = op.label.split('(').next().unwrap_or("op").to_string();
                cx.count(&format!("verdict.{}.{}", kind, match (&got, &model) { (Ok(_), Ok(_)) => "both-ok", (Err(_), Err(_)) => "both-err", _ => "DISAGREE" }));
                cx.cell(format!("{kind}|{}", if got.is_ok() { "ok" } else { "err" }));
                match (&got, &model) {
                    (Ok(a), Ok(b)) if !op.compare_octets || a == b => {}
                    (Err(_), Err(_)) => {}
                    (Ok(a), Ok(b)) => cx.violation("C10", format!("{kind}/octets-differ"), format!("{}: library {} != model {}", op.label, hexs(a), hexs(b))),
                    (a, b) => cx.violation("C10", format!("{kind}/decision-differs"), format!("{}: library {:?} vs model {:?}", op.label, a.as_ref().map(|v| hexs(v)), b.as_ref().map(|v| hexs(v)))),
                }
                // the same operation alone on a fresh thread
                if cx.ch.chance("recheck_alone", 1, 6) {
                    let fresh = cx.node("alone");
                    let lib2 = op.lib.clone();
                    cx.step(fresh, "op-alone", StepOpts::default(), move || lib2(), move |cx, st2| {
                        let alone = match &st2.out { Ok(r) => r.clone(), Err(c) => Err(format!("crash: {c:?}")) };
                        cx.count("n.rechecked_alone");
                        if alone.is_ok() != got.is_ok() || (alone.is_ok() && alone != got) {
                            cx.violation("C10", format!("{kind}/differs-from-isolated-execution"), format!("{label}: interleaved {:?} vs alone {:?}", got.as_ref().map(|v| hexs(v)), alone.as_ref().map(|v| hexs(v))));
                        }
                    });
                }
            });
        }
    });
    cx.run();
    if cx.ch.chance("concurrent_burst", 1, 6) { crate::scen_burst::generator_burst(cx, "C10"); }
    if cx.ch.chance("many_keys_window", 1, 4) { crate::scen_burst::many_keys_window(cx); }
    if cx.ch.chance("cold_start", 1, 8) { crate::scen_burst::cold_start(cx); }
}
