mod api;
mod fixtures;
mod refmodel;

use zksim_core::runner::Check;
use zksim_core::sim;

#[global_allocator]
static ALLOC: sim::CountingAlloc = sim::CountingAlloc;

fn node_init() {
    zkryptium::verif_hooks::install(Some(sim::on_tick));
}

fn main() {
    zksim_core::entropy::ensure_shim();
    sim::install_quiet_panic_hook();
    sim::set_node_init(node_init);
    let args: Vec<String> = std::env::args().collect();
    if args.get(1).map(|s| s.as_str()) == Some("fixtures") {
        match fixtures::check_all() {
            Ok(n) => { println!("refmodel reproduces {n} fixture vectors"); std::process::exit(0) }
            Err(e) => { eprintln!("refmodel != fixtures: {e} (harness error)"); std::process::exit(2) }
        }
    }
    let checks: Vec<&Check> = vec![];
    std::process::exit(zksim_core::runner::cli(&checks));
}
