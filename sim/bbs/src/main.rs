mod api;
mod common;
mod fixtures;
mod refmodel;
mod scen_blind;
mod scen_sweep;
mod scen_burst;
mod scen_codec;
mod scen_conform;
mod scen_domain;
mod scen_update;
mod scen_fresh;
mod scen_proof;
mod scen_robust;
mod scen_sig;

use zksim_core::runner::Check;
use zksim_core::sim;

#[global_allocator]
static ALLOC: sim::CountingAlloc = sim::CountingAlloc;

const REAL: &[&str] = &["everything under /repo/src (zkryptium, built without cfg(test))", "rand 0.8 thread_rng / ReseedingRng", "getrandom crate retry loop", "bls12_381_plus", "serde_json codecs"];
const SIMULATED: &[&str] = &["network (frames of octet strings between roles)", "issuer key store and holder wallet (octets at rest)", "OS entropy (deterministic per-node stream below getrandom(2), with EINTR / short reads)", "scheduler (baton over real threads, tick preemption)", "node crash/restart", "adversary (Mallory)"];

static C01: Check = Check {
    property: "C01",
    level: "exploration",
    rule: "one run = 1-3 issuance sessions (suite, key material, key_info, header, L messages drawn per run) interleaved on an issuer and a holder thread, with neutral faults only (absent<->empty toggles, swap of equal messages, dup+drop, frame duplication, issuer/holder crash-restart with reload from octets/coordinates/JSON); a case = one (statement, delivered octets) pair that reached sign/verify; distinct = distinct SHA-256 of that content; in 1 run of 6: a free-running BURST (several nodes released into the library at the same time, outcomes judged by oracles that hold for any interleaving) of 3-5 keygen+sign+verify calls with L in {3..130} (4 KiB messages sometimes), each signature re-verified and re-signed serially afterwards; SIZE SWEEP: every run adds one honest flow whose list length is the run index modulo 300 (1200 thorough), so a batch walks through every length 0..299 for both suites; long lists carry repeated messages in 1 run of 3; the process runs with a log sink at Trace level; 1 run in 97 signs a message of 16 MiB + 1 octets; the thorough tier signs one credential of 17000 messages; every environment variable the library's sources read is set (64 octets of hex) before the first library call; the size-sweep flow also walks the header through 0 / 1 / 255 / 256 / 65535 / 65536 / 70000 / 2^20 octets and key_info through 0 / 1 / 255 / 256 / 65534 / 65535 octets (run index modulo 9 and 7)",
    quick_runs: 600,
    thorough_runs: 2000,
    run: scen_sig::run_c01,
    assumptions: &["acceptance decided by the ideal functionality: delivered statement equals the signed one after None==empty normalisation", "entropy seam is only exercised by KeyPair::random here"],
    real: REAL,
    simulated: SIMULATED,
    exhaustive_after: None,
    probes: &["issuer_reload_after_restart", "holder_restart_before_verify", "preempted_inside.create_generators", "preempted_inside.messages_to_scalar", "header_of_65536_octets_or_more", "key_info_of_65535_octets"],
};
static C02: Check = Check {
    property: "C02",
    level: "fault_enumeration",
    rule: "one run = one honest credential, then every fault of the catalogue applied to a copy of the Credential frame and delivered to the holder: 40 of the 640 signature bit flips (run index mod 16 selects the slice, so 16 consecutive runs enumerate all 640), every single-element list fault for L<=8 (alter first/middle/last byte, drop, dup, swap, insert, truncate, extend), 9 header faults, misroute to other suite / blind interface / other key, 6 stored-pk bit flips, blind-interface signature at plain endpoints; verdict by content (MustReject unless the delivered statement equals a signed one); a case = one delivered frame that reached the verifier; every fourth run uses a list length from {128, 257, 64, 32, 129, 256, 33, 65, 127, 258, 63, 31, 255} (walked by the run index) with the edge edits (first / last element, append, cut the tail, swap across the list) plus a random sample instead of the complete catalogue, long lists disclosed completely; headers / presentation headers also of 4095, 4096, 4097 and 6000 octets; framing: lists sometimes start with x, x SEP x (SEP in NUL , newline 0x1f |), list faults include the boundary shift (last octet of element i to the front of element i + 1), headers are sometimes a non-canonical JSON object and octet faults insert a blank / a newline; octet faults include the length-prefix edit (I2OSP(len, 8) in front of the string); ENCODING CONFUSION: one message replaced by the 32 octets / the serde form / the hex text of the scalar it maps to",
    quick_runs: 64,
    thorough_runs: 640,
    run: scen_sig::run_c02,
    assumptions: &["a MustReject frame is accepted by correct code with probability <= 2^-128", "panics of the verifier are counted as rejection here and charged to C08"],
    real: REAL,
    simulated: SIMULATED,
    exhaustive_after: Some(16),
    probes: &["list_length_at_a_power_of_two_edge"],
};

static C03: Check = Check {
    property: "C03",
    level: "exploration",
    rule: "one run = 1-2 presentation sessions Issuer -> Holder -> Verifier; the Holder's proof_gen runs the production randomness path on its own thread fed by the node's deterministic entropy stream (with injected EINTR / short reads), possibly after a holder restart and with tick preemption inside create_generators / messages_to_scalar / calculate_random_scalars; disclosure sets: all 2^L subsets in rotation for L<=6, none/all/random for larger L; header, ph in {absent, empty, bytes}; neutral faults only on the Presentation frame (absent<->empty toggles, JSON codec, frame duplication, verifier restart); oracle MustAccept + proof length == 272+32U; a case = one delivered presentation; in 1 run of 8: a free-running BURST (several nodes released into the library at the same time, outcomes judged by oracles that hold for any interleaving) of 3-6 issuances followed by 2-7 back-to-back presentations per holder (L in {1,2,5,40,66,90}), every proof verified and round-tripped serially afterwards; SIZE SWEEP: every run adds one honest flow whose list length is the run index modulo 300 (1200 thorough), so a batch walks through every length 0..299 for both suites; long lists carry repeated messages in 1 run of 3; the process runs with a log sink at Trace level; JSON is decoded through serde_json::from_str, from_reader or from_value (picked by the length of the text); 1 run in 100: 400 draws of 2000 random scalars must all come back complete; 1 run in 100: an EXTREME-SIZE flow (2600 / 3200 messages signed, presented, verified on a thread with a 256 KiB stack) in a child process -- a child that dies is a violation; 1 run in 4: PROOF SHAPE -- two credentials of L and L + d messages (the second with longer messages) presented with the same U: equal octet length and equal JSON shape (members, string lengths, numbers) of the serde text of the FRESH proof object, which must also verify through the serde decoder; the draw-count run asks one thread for 1.2 million scalars (quick) / 3 million (thorough)",
    quick_runs: 500,
    thorough_runs: 2000,
    run: scen_proof::run_c03,
    assumptions: &["'reveals nothing else' is checked as the length formula only"],
    real: REAL,
    simulated: SIMULATED,
    exhaustive_after: None,
    probes: &["U=0", "R=0", "L=0", "EINTR_during_proof_gen", "short_read_during_proof_gen", "holder_restart_before_proof_gen", "proof_gen_drew_fresh_entropy", "preempted_inside.calculate_random_scalars", "preempted_inside.create_generators", "random_draw_count_volume", "extreme_size_in_a_child_process", "proof_shape_compared_across_credential_sizes"],
};
static C04: Check = Check {
    property: "C04",
    level: "fault_enumeration",
    rule: "one run = one honest presentation, then the corrupting catalogue on the Presentation frame: bit flips of the 272 fixed octets in 16 slices (16 consecutive runs enumerate all 2176) plus all 256 bits of one m^ response; truncation/extension by whole scalars; dropped/inserted response; every single-element fault of the disclosed-message list; every integer corruption of every index; permuted / dropped / duplicated / added (index, message) pairs; 9 header and 9 ph faults; header<->ph swap; misroute to other suite / blind interface / other key / stored-pk bit flips; and Mallory's frames built from public data only (8 degenerate-element families x 3 claimed statements, through from_bytes and through the JSON decoder); verdict by content; a case = one delivered frame; every fourth run uses a list length from {128, 257, 64, 32, 129, 256, 33, 65, 127, 258, 63, 31, 255} (walked by the run index) with the edge edits (first / last element, append, cut the tail, swap across the list) plus a random sample instead of the complete catalogue, long lists disclosed completely; headers / presentation headers also of 4095, 4096, 4097 and 6000 octets; framing: lists sometimes start with x, x SEP x (SEP in NUL , newline 0x1f |), list faults include the boundary shift (last octet of element i to the front of element i + 1), headers are sometimes a non-canonical JSON object and octet faults insert a blank / a newline; Mallory's complete transcript without a signature (Abar = alpha*D, Bbar = beta*D, D = k*Bv: passes the challenge comparison, fails only the pairing); half of the forged frames are presented a second time to the same verifier thread; octet faults include the length-prefix edit (I2OSP(len, 8) in front of the string); ENCODING CONFUSION: one message replaced by the 32 octets / the serde form / the hex text of the scalar it maps to; Mallory's zero-response transcript (e^ = 0 over the honest Abar, Bbar with D = Bv of the claimed statement); index lists the draft does not take: the INDEX list alone reordered with the messages as given (every swapped pair a false claim), one index listed twice with one message (R + 1 indexes, R messages); the proof followed by 1 / 31 / 33 octets; index corruptions now include the honest index plus 2^8 / 2^16 / 2^32 / 3 * 2^32 / 2^63 (what survives a narrowing)",
    quick_runs: 48,
    thorough_runs: 480,
    run: scen_proof::run_c04,
    assumptions: &["a MustReject frame is accepted by correct code with probability <= 2^-128", "consistently permuted/duplicated (index,message) pairs are DontCare (DESIGN.md Appendix A.1)", "Mallory computes the verifier's domain and challenge with the spec model"],
    real: REAL,
    simulated: SIMULATED,
    exhaustive_after: Some(16),
    probes: &["U=0", "R=0", "L=0", "list_length_at_a_power_of_two_edge", "index_list_reordered_messages_as_given"],
};

static C08: Check = Check {
    property: "C08",
    level: "fault_enumeration",
    rule: "the space {15 octet-string entry points} x {7 content classes: honest (truncated below / extended by scalar-shaped material above its length), honest with one bit flipped, zeros, 0xFF, identity pattern, PRNG, honest prefix + maxed scalars} x {every length 0..=1024} (fixed-size parameters: 64 content variants at the only admissible length), plus {6 serde_json decoders} x {every truncation of the honest JSON, every value leaf replaced by 11 wrong-type tokens, huge arrays/strings}, plus corrupted integers (every index entry, L, update_index over {0,1,L-1,L,L+1,+-1,2^31,2^32,2^63,MAX-1,MAX}) and malformed index lists, is split by run index: run k enumerates one (entry, class) completely; 129 consecutive runs cover the whole space; a case = one delivered frame; the victim node must return, within 64+4*measure ticks and 1MiB+16KiB*measure requested bytes (measure = ceil(octets/32) + index entries + trusted counts); the wrong-type catalogue of the JSON decoders includes non-hex, UTF-8 and upper-case strings of 64, 96, 192 and 384 characters (every length a codec of the library knows); JSON frames with every enum variant name of the generic types (BBSplus, CL03, _Unreachable, unknown, empty) over null / the honest payload / an empty array; update_signature also with message counts n in {0, 1, L-1 .. L+2, usize::MAX} and with an old signature whose e is -SK; deserialize_and_validate_commit with 8 / exactly M / M +- 1 / M + 2 / no blind generators; JSON strings with one multi-octet character at octet offset 1 / 2 / 3 of an otherwise plausible hex text (64-384 characters); every corrupted index list also with L absent",
    quick_runs: 129,
    thorough_runs: 258,
    run: scen_robust::run_c08,
    assumptions: &["overflow-checks = on in the harness profile", "work is observed as ticks of the guarded hook in create_generators / messages_to_scalar / calculate_random_scalars / from_bytes loops, not wall time", "allocation is bytes requested per step, measured by a counting allocator; allocation failure is not injected", "n of update_signature and the caller's own message lists are trusted inputs"],
    real: REAL,
    simulated: SIMULATED,
    exhaustive_after: Some(129),
    probes: &["honest_extended_reached", "honest_truncated_reached"],
};

static C09: Check = Check {
    property: "C09",
    level: "fault_enumeration",
    rule: "per artefact type {PublicKey, SecretKey, Signature, BlindSignature, PoKSignature, ZKPoK, Commitment, BlindFactor} and ciphersuite, around an honest encoding: (part 0) store round trips across a node restart in every codec (octets, JSON, pk coordinates), extension by 1..=64 octets x 3 content classes, truncation to every length; (part 1) every single-bit flip; (part 2) every non-canonical / forbidden substitution in every point and scalar slot (scalar+r, +2r, =r, =2^256-1, =0, =r-1; identity, identity+sort flag, infinity flag with non-zero x, compression flag cleared, infinity flag on a point, non-subgroup point, off-curve x, x>=p, sort flag flipped); run index -> (suite, type, part): 48 consecutive runs enumerate everything; oracle: accepted => re-encoding equals the delivered octets, forbidden class => Err; a case = one delivered octet string that reached a decoder (wrong lengths for fixed-size array parameters are excluded by the type and not counted); the coordinate form x || y fed to the octet decoder (a foreign encoding of the same key), and forbidden coordinates (a curve point outside the subgroup, a point off the curve, infinity); the library's key store (KeyPair::write_keypair_to_file) on a path with each of four histories (nothing there, a longer older document, a shorter one, another key pair written just before), a crash of the role, and the reload of the file; JSON decoded through from_str / from_reader / from_value; signature octets of other lengths through the slice entry points (proof_gen, blind_proof_gen); one extra run per 49 GRINDS: four threads walk k*G until they meet points of G1 whose x-coordinate starts with the leading octets 1a 01 11 of the field modulus, fed to the signature and commitment decoders; a burst of four roles storing different key pairs into one directory at the same time, 60 writes each, every write read back; two points of a proof moved off the subgroup by cancelling small-order components; commitments to NO message through every codec; zero octets and other octets PREPENDED (1, 2, 16, 32, 48) to every artefact",
    quick_runs: 49,
    thorough_runs: 196,
    run: scen_codec::run_c09,
    assumptions: &["decoders are pure functions of their octets; the simulator contributes the restart/reload observation and replay", "forbidden classes as listed by the property: wrong length, trailing bytes, scalar >= r, off-curve, wrong subgroup, identity for pk / A / Abar,Bbar,D, e = 0"],
    real: REAL,
    simulated: SIMULATED,
    exhaustive_after: Some(49),
    probes: &[],
};

static C05: Check = Check {
    property: "C05",
    level: "exploration",
    rule: "one run = one blind issuance + presentation session Holder(commit) -> Issuer(blind_sign) -> Holder(verify_blind_sign, blind_proof_gen) -> Verifier(blind_proof_verify); run indexes 0..642 enumerate, for both suites, all 321 (L, M, disclosure pair) combinations with L + M <= 5 (every (L,M) in the triangle x all 2^L x 2^M disclosure pairs); later runs draw shapes up to (40, 40); issuance without commitment included; production randomness through the entropy seam with EINTR / short reads; holder crash-restart between commit and receipt (blind factor survives as 32 octets) and before presenting; neutral faults only; a case = one delivered frame; in 1 run of 8: a free-running BURST (several nodes released into the library at the same time, outcomes judged by oracles that hold for any interleaving) of 3-6 blind issuances (M up to 70 committed messages) followed by 2-7 back-to-back blind presentations per holder, verified serially afterwards; SIZE SWEEP: every run adds one honest flow whose list length is the run index modulo 300 (1200 thorough), so a batch walks through every length 0..299 for both suites; long lists carry repeated messages in 1 run of 3; the process runs with a log sink at Trace level",
    quick_runs: 700,
    thorough_runs: 2600,
    run: scen_blind::run_c05,
    assumptions: &["a blind signature issued without commitment is checked with no committed messages and an absent (zero) blind factor (DESIGN.md Appendix A.7)"],
    real: REAL,
    simulated: SIMULATED,
    exhaustive_after: Some(642),
    probes: &["L=0", "M=0", "issued_without_commitment", "holder_restart_between_commit_and_unblind", "commit_drew_fresh_entropy", "blind_proof_gen_drew_fresh_entropy", "two_sessions_same_key_and_header"],
};
static C06: Check = Check {
    property: "C06",
    level: "fault_enumeration",
    rule: "one run = one honest blind session (shape from the same 642-combination table), then: on the BlindRequest hop every bit flip of the commitment-with-proof in slices of 112 bits across runs, truncation/extension by whole scalars, dropped/inserted response, cross-suite replay, commitment/proof splices with a second honest request; on the BlindCredential hop every single-element fault of the committed and signer message lists, message moved across the signer/committed boundary, 32 blind-factor bit flips per run (8 runs cover all 256), blind factor removed, header faults, 40 signature bit flips, pk faults, misroute; on the Presentation hop L corruption, every list / index fault of both disclosed lists, pair moved between lists, header/ph faults, 64 proof bit flips per run, whole-scalar truncation/extension, misroute; verdict by content; every fourth run commits to 128, 64, 32, 129, 33, 65, 127, 63 or 31 messages (walked by the run index); Mallory also sends a commitment point OUTSIDE the subgroup (C + T, T of order 3) with a proof ground until the challenge kills c*T, one frame per residue of the challenge modulo 3; whole-scalar extensions also with blocks that are not canonical scalars (r, r + 4, all ones: after s^, before the challenge, appended); index aliasing across the signer-side and committed lists of a presentation; index lists the draft does not take, on both lists: reordered alone, one index twice with one message; a disclosed committed pair (j, c) claimed through the signer lists as (L + 1 + j, c); a message moved across the boundary of the two message lists with the indexes untouched; a PLAIN signature by the same key over the same header and messages offered at the blind endpoint without committed messages and blind factor",
    quick_runs: 64,
    thorough_runs: 642,
    run: scen_blind::run_c06,
    assumptions: &["the issuer must refuse every request that is not byte-identical to an honest request for its suite (requests extended by 1..31 octets are C09's clause)", "a MustReject frame is accepted by correct code with probability <= 2^-128", "crashes are counted as refusal here and charged to C08"],
    real: REAL,
    simulated: SIMULATED,
    exhaustive_after: None,
    probes: &["list_length_at_a_power_of_two_edge", "off_subgroup_commitment_with_ground_challenge", "index_list_reordered_messages_as_given", "committed_message_claimed_as_signer_message", "plain_signature_at_the_blind_endpoint"],
};

static C07: Check = Check {
    property: "C07",
    level: "exploration",
    rule: "one run = one credential (plain and blind) and K in 2..6 holder nodes, each on its own OS thread with its own entropy stream, each performing 2..6 generations (proof_gen, blind_proof_gen, commit, KeyPair::random + BlindFactor::random) on the SAME inputs, the first generation of every holder being the same operation, interleaved by the scheduler with tick preemption, holder crash-restart (fresh thread_rng) and EINTR / short reads in between; the wire monitor holds every witness and, over the whole history of the run, requires: recomputed blindings e~, m~_j, s~, cm~_i non-zero, >= 2^160 and pairwise distinct; responses, Abar, Bbar, D, commitments, blind factors, random keys never repeated; no 32/48-octet window of a proof or commitment equal to a hidden scalar, e, A, the blind factor; a case = one transcript; in 1 run of 4: a free-running BURST (several nodes released into the library at the same time, outcomes judged by oracles that hold for any interleaving) of 3-6 holders each doing 2-6 rounds of KeyPair::random + BlindFactor::random + commit + proof_gen + blind_proof_gen on the same inputs, all fed to the same history monitor; 1 run in 16 is a VOLUME run: 150000 batches of random scalars and 500000 random blind factors (400000 / 2000000 thorough) drawn on four threads at once, none zero, no two equal; every environment variable the library's sources read is set (64 octets of hex) before the first library call; op 5: a presentation of a blind signature issued WITHOUT commitment by a holder without prover blind (the blind slot holds the scalar 0, its blinder is checked like every other); RANGE COVERAGE: at least one of the >= 64 fresh values of a run reaches 2^254 (45% of uniform scalars do), and in the volume run every leading octet 0x00..0x73 occurs",
    quick_runs: 300,
    thorough_runs: 1500,
    run: scen_fresh::run_c07,
    assumptions: &["'no pair of transcripts allows extraction' is decided in the form the property's quantifier gives (distinct non-zero recomputed blindings), not as a proof of zero knowledge", "a deterministic but well-spread generator that ignores OS entropy (e.g. a hashed global counter) would not be caught by distinctness alone"],
    real: REAL,
    simulated: SIMULATED,
    exhaustive_after: None,
    probes: &["proof_with_more_than_32_random_scalars", "commitment_with_more_than_32_random_scalars", "commit_with_absent_list", "concurrent_burst", "volume_draws", "presentation_of_a_blind_signature_without_commitment"],
};

static C10: Check = Check {
    property: "C10",
    level: "exploration",
    rule: "one run = 12..31 deterministic operations (KeyGen/SkToPk across the ikm, key_info and DST size limits; create_generators for counts 0..=64, 255..257 (1000+ thorough) and plain / blind / BLIND_ / empty / arbitrary api_ids; messages_to_scalars; hash_to_scalar across the DST limit; Sign with L up to 257 and headers across 255/256; BlindSign on a fixed request and without one; accept/reject decisions of verify, proof_verify, blind_sign(request), verify_blind_sign, blind_proof_verify on honest and singly mutated artefacts) spread over 1, 2-4, 5-8 or 16 nodes and interleaved by the scheduler with tick preemption; plus, in every run, create_generators for one count of the complete range 0..=64 (0..=1100 thorough) per suite, walking through the whole range with the run index; each result is compared with the executable spec model (octets and Ok/Err) and, for a sample, with the same operation alone on a fresh thread; the model must first reproduce all 110 fixture vectors; a case = one operation; in 1 run of 6 a burst of concurrent Generators::create on two fresh api_ids (one request of 100-220 overlapping 36 shorter ones) compared with the model during and after; in 1 run of 4 the MANY-KEYS WINDOW: a proof verification (2-41 messages) parked by forced preemption at phase:proof_verify_init and starved while 8-16 one-message proofs under other issuer keys are verified on three other nodes (the attacker's key last in 3 of 4), for an honest long proof (model accepts) and for a proof made from a signature computed with the attacker's secret over the issuer's domain (model rejects); Sign also under headers of 1023 .. 6000 octets, with one message of 1 .. 10 KiB, and for 32 / 33 / 64 / 65 / 128 / 129 / 258 messages; Sign and BlindSign also under a public key that is not the secret key's; in 1 run of 8 a COLD START: this engine re-executed as a child process in which 1, 2, 8 or 16 threads leave a barrier into the first library calls of the process (KeyGen + Sign + Verify + create_generators, or KeyPair::random + commit), every deterministic result compared with the model; decision operations also with the public key in its 192-octet coordinate form (the draft's octets_to_pubkey refuses it); Sign for 1024 .. 4097 messages now and then; decision mutations 15-19: index list reordered alone, index duplicated without its message, committed pair claimed as signer pair, one disclosed message more / fewer than indexes",
    quick_runs: 160,
    thorough_runs: 1500,
    run: scen_conform::run_c10,
    assumptions: &["trusted base: the model's reading of the drafts (DESIGN.md Appendix B), pinned by every fixture incl. trace values", "decision comparison uses canonical (ascending) index lists only", "arbitrary api_ids are limited to 200 octets (longer DSTs are outside the drafts)", "proof generation is randomised and is covered by C03/C04, not by octet comparison"],
    real: REAL,
    simulated: SIMULATED,
    exhaustive_after: None,
    probes: &["long_verification_parked_while_many_keys_are_verified", "cold_start_of_a_child_process"],
};
static C11: Check = Check {
    property: "C11",
    level: "fault_enumeration",
    rule: "one run = one honest session producing the five artefact kinds (signature, proof, commitment-with-proof, blind signature, blind proof) under (suite s, interface i); each is delivered to all endpoints (s', i') -- 3 foreign ones must reject, its own is the control -- complete matrix per run, run parity selects s; plus 6..13 Generators::create calls (counts 0..280, api_ids plain / blind / BLIND_ / none, both suites) spread over two nodes in a per-run order with tick preemption inside create_generators, checked for count, identity, P1, duplicates, prefix consistency with every earlier set of the same api_id and disjointness from every set of another api_id; a case = one delivery or one generator set; FORCED OVERLAPS in 2 runs of 3: a Generators::create of 40-199 on an api_id that is fresh in this process, parked at a generator index drawn per run while the other node requests 2-5 lists of 1-60 and then a longer one of the same api_id, every list compared with the model's; in 1 run of 2 the same on the merged blind generator list (prepare_parameters with 65-134 blind generators parked, 33-72 and longer ones meanwhile); in 1 run of 6 a burst of concurrent creates; api_ids that differ from the fresh one only by a trailing LF / CR LF / CR; prepare_parameters under interface identifiers of the caller's own, four of six beginning with the label BLIND_ itself (BLIND_ || blind api_id, BLIND_AUCTION_V1_, BLIND_, BLIND_BLIND_x): the merged list equals create(n, a) ++ create(m, BLIND_ || a) of the model and repeats nothing",
    quick_runs: 120,
    thorough_runs: 1200,
    run: scen_domain::run_c11,
    assumptions: &["foreign endpoints try every plausible way of feeding the artefact (with and without committed messages, every L)"],
    real: REAL,
    simulated: SIMULATED,
    exhaustive_after: Some(2),
    probes: &["forced_overlap_on_fresh_api_id", "long_request_parked_while_others_ran", "forced_overlap_on_blind_generators", "interface_id_that_begins_with_the_blind_label"],
};
static C12: Check = Check {
    property: "C12",
    level: "exploration",
    rule: "one run = one credential (L in 1..12; L = 1..6 in rotation on every fourth run with positions visited exhaustively) and a holder-intended history of up to 10 (thorough 32) single-message updates sent as UpdateRequest(i, old, new) frames over a channel that reorders, duplicates, drops and corrupts (index, old value) them; the Issuer applies them in arrival order; after each applied update the sequential model decides: correct old value => the reply verifies for the intended vector, keeps e, and its A equals B(vector)/(sk+e) computed by the spec model; index >= L => error; wrong old value (alteration, reorder, double application) => the reply must not verify for the intended vector; finally every epoch's signature is replayed against every other epoch's vector; a case = one update or one replay; 1 credential in 8 is long (65, 129, 254 .. 257 or 300 messages) and is updated at the positions around 64 / 128 / 254 .. 256 and at its last one; new values related to the old one (extended by 1 / 255 / 256 / 257 / 512 octets, cut by 256) and, rarely, of 65535 / 65536 / 70000 octets; old and new value are passed as views of one buffer whenever the new value extends the old one; 1 run in 6: a burst of four issuers serving 24 update requests each at the same time; a corrupted position on a request that changes nothing (new value == old value)",
    quick_runs: 300,
    thorough_runs: 1500,
    run: scen_update::run_c12,
    assumptions: &["n passed to update_signature is the true message count (trusted)"],
    real: REAL,
    simulated: SIMULATED,
    exhaustive_after: None,
    probes: &["long_credential_updated_near_its_end", "concurrent_update_requests", "corrupted_position_on_a_request_that_changes_nothing"],
};

fn node_init() {
    zkryptium::verif_hooks::install(Some(sim::on_tick));
}

fn main() {
    zksim_core::entropy::ensure_shim();
    sim::install_quiet_panic_hook();
    sim::install_log_sink();
    sim::set_node_init(node_init);
    let args: Vec<String> = std::env::args().collect();
    // (before anything else touches the library: the child process of a cold-start probe)
    if args.get(1).map(|s| s.as_str()) == Some("coldstart") { scen_burst::coldstart_child(&args[2..]); return; }
    if args.get(1).map(|s| s.as_str()) == Some("bigproof") { scen_sweep::bigproof_child(&args[2..]); return; }
    if args.get(1).map(|s| s.as_str()) == Some("debugjson") { debug_json(); return; }
    if args.get(1).map(|s| s.as_str()) == Some("fixtures") {
        match fixtures::check_all() {
            Ok(n) => { println!("refmodel reproduces {n} fixture vectors"); std::process::exit(0) }
            Err(e) => { eprintln!("refmodel != fixtures: {e} (harness error)"); std::process::exit(2) }
        }
    }
    let checks: Vec<&Check> = vec![&C01, &C02, &C03, &C04, &C05, &C06, &C07, &C08, &C09, &C10, &C11, &C12];
    if let Err(e) = fixtures::check_all() {
        eprintln!("refmodel != fixtures: {e} (harness error)");
        std::process::exit(2);
    }
    std::process::exit(zksim_core::runner::cli(&checks));
}

#[allow(dead_code)]
pub fn debug_json() {
    use crate::api::*;
    let s = Suite::Sha256;
    let (sk, pk) = keygen(s, &[1u8; 32], None, None).unwrap();
    let msgs = Some(vec![b"a".to_vec(), b"b".to_vec()]);
    let sig = sign(s, &sk, &pk, &None, &msgs).unwrap();
    let p = proof_gen(s, &pk, &sig, &None, &None, &msgs, &Some(vec![0])).unwrap();
    println!("{}", proof_to_json(s, &p).unwrap());
    println!("{}", hex::encode(&p));
}
