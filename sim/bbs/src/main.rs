mod api;
mod common;
mod fixtures;
mod refmodel;
mod scen_sig;

use zksim_core::runner::Check;
use zksim_core::sim;

#[global_allocator]
static ALLOC: sim::CountingAlloc = sim::CountingAlloc;

const REAL: &[&str] = &["everything under /repo/src (zkryptium, built without cfg(test))", "rand 0.8 thread_rng / ReseedingRng", "getrandom crate retry loop", "bls12_381_plus", "serde_json codecs"];
const SIMULATED: &[&str] = &["network (frames of octet strings between roles)", "issuer key store and holder wallet (octets at rest)", "OS entropy (deterministic per-node stream below getrandom(2), with EINTR / short reads)", "scheduler (baton over real threads, tick preemption)", "node crash/restart", "adversary (Mallory)"];

static C01: Check = Check {
    property: "C01",
    level: "exploration",
    rule: "one run = 1-3 issuance sessions (suite, key material, key_info, header, L messages drawn per run) interleaved on an issuer and a holder thread, with neutral faults only (absent<->empty toggles, swap of equal messages, dup+drop, frame duplication, issuer/holder crash-restart with reload from octets/coordinates/JSON); a case = one (statement, delivered octets) pair that reached sign/verify; distinct = distinct SHA-256 of that content",
    quick_runs: 600,
    thorough_runs: 2000,
    run: scen_sig::run_c01,
    assumptions: &["acceptance decided by the ideal functionality: delivered statement equals the signed one after None==empty normalisation", "entropy seam is only exercised by KeyPair::random here"],
    real: REAL,
    simulated: SIMULATED,
    exhaustive_after: None,
};
static C02: Check = Check {
    property: "C02",
    level: "fault_enumeration",
    rule: "one run = one honest credential, then every fault of the catalogue applied to a copy of the Credential frame and delivered to the holder: 40 of the 640 signature bit flips (run index mod 16 selects the slice, so 16 consecutive runs enumerate all 640), every single-element list fault for L<=8 (alter first/middle/last byte, drop, dup, swap, insert, truncate, extend), 9 header faults, misroute to other suite / blind interface / other key, 6 stored-pk bit flips, blind-interface signature at plain endpoints; verdict by content (MustReject unless the delivered statement equals a signed one); a case = one delivered frame that reached the verifier",
    quick_runs: 64,
    thorough_runs: 640,
    run: scen_sig::run_c02,
    assumptions: &["a MustReject frame is accepted by correct code with probability <= 2^-128", "panics of the verifier are counted as rejection here and charged to C08"],
    real: REAL,
    simulated: SIMULATED,
    exhaustive_after: Some(16),
};

fn node_init() {
    zkryptium::verif_hooks::install(Some(sim::on_tick));
}

fn main() {
    zksim_core::entropy::ensure_shim();
    sim::install_quiet_panic_hook();
    sim::set_node_init(node_init);
    let args: Vec<String> = std::env::args().collect();
    if args.get(1).map(|s| s.as_str()) == Some("fixtures") {
        match fixtures::check_all() {
            Ok(n) => { println!("refmodel reproduces {n} fixture vectors"); std::process::exit(0) }
            Err(e) => { eprintln!("refmodel != fixtures: {e} (harness error)"); std::process::exit(2) }
        }
    }
    let checks: Vec<&Check> = vec![&C01, &C02];
    if let Err(e) = fixtures::check_all() {
        eprintln!("refmodel != fixtures: {e} (harness error)");
        std::process::exit(2);
    }
    std::process::exit(zksim_core::runner::cli(&checks));
}
