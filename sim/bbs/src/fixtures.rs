//! Before any simulated run the spec model must reproduce every vector under
//! /repo/fixture_data and /repo/fixture_data_blind (including trace values).  A mismatch is
//! a harness error (exit 2), never a property violation.
use crate::api::Suite;
use crate::refmodel as rm;
use bls12_381_plus::Scalar;
use serde_json::Value;

fn hx(v: &Value) -> Vec<u8> { hex::decode(v.as_str().unwrap_or("")).expect("hex") }
fn load(p: &str) -> Value { serde_json::from_str(&std::fs::read_to_string(p).unwrap_or_else(|e| panic!("{p}: {e}"))).unwrap_or_else(|e| panic!("{p}: {e}")) }
fn sc(v: &Value) -> Scalar { rm::octets_to_scalar(&hx(v)).expect("scalar") }
fn list(v: &Value) -> Vec<Vec<u8>> { v.as_array().map(|a| a.iter().map(hx).collect()).unwrap_or_default() }

pub fn repo_dir() -> String { std::env::var("ZKSIM_REPO").unwrap_or_else(|_| "/repo".into()) }

/// returns the number of vectors checked, or the first mismatch
pub fn check_all() -> Result<usize, String> {
    let mut n = 0;
    let repo = repo_dir();
    for (s, dir) in [(Suite::Sha256, "bls12-381-sha-256"), (Suite::Shake256, "bls12-381-shake-256")] {
        let d = format!("{repo}/fixture_data/{dir}");
        // key pair
        let k = load(&format!("{d}/keypair.json"));
        let sk = rm::keygen(s, &hx(&k["keyMaterial"]), &hx(&k["keyInfo"]), Some(&hx(&k["keyDst"]))).map_err(|e| e.to_string())?;
        if sk.to_be_bytes().to_vec() != hx(&k["keyPair"]["secretKey"]) { return Err(format!("{dir}: keygen")); }
        if rm::sk_to_pk(&sk).to_vec() != hx(&k["keyPair"]["publicKey"]) { return Err(format!("{dir}: sk_to_pk")); }
        // the default key_dst is what the fixture carries
        let mut dflt = rm::api_id(s, false); dflt.extend_from_slice(b"KEYGEN_DST_");
        if dflt != hx(&k["keyDst"]) { return Err(format!("{dir}: default key_dst")); }
        n += 1;
        // generators
        let g = load(&format!("{d}/generators.json"));
        let gens = rm::create_generators(s, 11, &rm::api_id(s, false)).map_err(|e| e.to_string())?;
        use group::Curve;
        if rm::p1(s).to_affine().to_compressed().to_vec() != hx(&g["P1"]) { return Err(format!("{dir}: P1")); }
        if gens[0].to_affine().to_compressed().to_vec() != hx(&g["Q1"]) { return Err(format!("{dir}: Q1")); }
        for (i, e) in g["MsgGenerators"].as_array().unwrap().iter().enumerate() {
            if gens[1 + i].to_affine().to_compressed().to_vec() != hx(e) { return Err(format!("{dir}: H_{i}")); }
        }
        n += 1;
        // map message to scalar, h2s
        let m = load(&format!("{d}/MapMessageToScalarAsHash.json"));
        for c in m["cases"].as_array().unwrap() {
            let x = rm::hash_to_scalar(s, &hx(&c["message"]), &hx(&m["dst"])).map_err(|e| e.to_string())?;
            if x.to_be_bytes().to_vec() != hx(&c["scalar"]) { return Err(format!("{dir}: map_to_scalar")); }
            n += 1;
        }
        let h = load(&format!("{d}/h2s.json"));
        if rm::hash_to_scalar(s, &hx(&h["message"]), &hx(&h["dst"])).map_err(|e| e.to_string())?.to_be_bytes().to_vec() != hx(&h["scalar"]) { return Err(format!("{dir}: h2s")); }
        n += 1;
        // mocked rng = expand_message(seed, dst, 48 * count) cut into scalars
        let mr = load(&format!("{d}/mockedRng.json"));
        let cnt = mr["count"].as_u64().unwrap() as usize;
        let u = rm::expand_message(s, &hx(&mr["seed"]), &hx(&mr["dst"]), 48 * cnt).map_err(|e| e.to_string())?;
        for i in 0..cnt {
            let a: [u8; 48] = u[48 * i..48 * i + 48].try_into().unwrap();
            if Scalar::from_okm(&a).to_be_bytes().to_vec() != hx(&mr["mockedScalars"][i]) { return Err(format!("{dir}: mocked scalar {i}")); }
        }
        n += 1;
        // signatures
        for i in 1..=10 {
            let f = load(&format!("{d}/signature/signature{i:03}.json"));
            let sk = sc(&f["signerKeyPair"]["secretKey"]);
            let pk = hx(&f["signerKeyPair"]["publicKey"]);
            let header = hx(&f["header"]);
            let msgs = list(&f["messages"]);
            let valid = f["result"]["valid"].as_bool().unwrap();
            let sig = hx(&f["signature"]);
            let v = rm::verify(s, &pk, &sig, &header, &msgs).is_ok();
            if v != valid { return Err(format!("{dir}: signature{i:03} verify {v} != {valid}")); }
            if valid {
                let pk96: [u8; 96] = pk.as_slice().try_into().unwrap();
                let mine = rm::sign(s, &sk, &pk96, &header, &msgs).map_err(|e| e.to_string())?;
                if mine.to_bytes().to_vec() != sig { return Err(format!("{dir}: signature{i:03} sign")); }
                if let Some(dm) = f["trace"]["domain"].as_str() {
                    let api = rm::api_id(s, false);
                    let gens = rm::create_generators(s, msgs.len() + 1, &api).unwrap();
                    let dom = rm::calculate_domain(s, &pk96, &gens[0], &gens[1..], &header, &api).unwrap();
                    if hex::encode(dom.to_be_bytes()) != dm { return Err(format!("{dir}: signature{i:03} domain")); }
                    let ms = rm::messages_to_scalars(s, &msgs, &api).unwrap();
                    let b = rm::b_value(s, &dom, &gens, &ms);
                    if hex::encode(b.to_affine().to_compressed()) != f["trace"]["B"].as_str().unwrap_or("") { return Err(format!("{dir}: signature{i:03} B")); }
                }
            }
            n += 1;
        }
        // proofs
        for i in 1..=15 {
            let f = load(&format!("{d}/proof/proof{i:03}.json"));
            let pk = hx(&f["signerPublicKey"]);
            let header = hx(&f["header"]);
            let ph = hx(&f["presentationHeader"]);
            let msgs = list(&f["messages"]);
            let didx: Vec<usize> = f["disclosedIndexes"].as_array().unwrap().iter().map(|x| x.as_u64().unwrap() as usize).collect();
            let dm: Vec<Vec<u8>> = didx.iter().map(|&i| msgs[i].clone()).collect();
            let proof = hx(&f["proof"]);
            let valid = f["result"]["valid"].as_bool().unwrap();
            let v = rm::proof_verify(s, &pk, &proof, &header, &ph, &dm, &didx).is_ok();
            if v != valid { return Err(format!("{dir}: proof{i:03} verify {v} != {valid}")); }
            if valid {
                let t = &f["trace"];
                let rs = &t["random_scalars"];
                let mut rnd = vec![sc(&rs["r1"]), sc(&rs["r2"]), sc(&rs["e_tilde"]), sc(&rs["r1_tilde"]), sc(&rs["r3_tilde"])];
                for m in rs["m_tilde_scalars"].as_array().unwrap() { rnd.push(sc(m)); }
                let api = rm::api_id(s, false);
                let gens = rm::create_generators(s, msgs.len() + 1, &api).unwrap();
                let ms = rm::messages_to_scalars(s, &msgs, &api).unwrap();
                let sig = rm::octets_to_signature(&hx(&f["signature"])).map_err(|e| e.to_string())?;
                let pk96: [u8; 96] = pk.as_slice().try_into().unwrap();
                let p = rm::core_proof_gen(s, &api, &pk96, &sig, &gens, &ms, &didx, &header, &ph, &rnd).map_err(|e| e.to_string())?;
                if p.to_bytes() != proof { return Err(format!("{dir}: proof{i:03} proof_gen")); }
                if hex::encode(p.c.to_be_bytes()) != t["challenge"].as_str().unwrap_or("") { return Err(format!("{dir}: proof{i:03} challenge")); }
            }
            n += 1;
        }
        // blind
        let d = format!("{repo}/fixture_data_blind/{dir}");
        let allm = load(&format!("{repo}/fixture_data_blind/messages.json"));
        let g = load(&format!("{d}/generators.json"));
        {
            let gg = &g["generators"];
            let gens = rm::create_generators(s, 11, &rm::api_id(s, true)).unwrap();
            if gens[0].to_affine().to_compressed().to_vec() != hx(&gg["Q1"]) { return Err(format!("{dir}: blind Q1")); }
            for (i, e) in gg["MsgGenerators"].as_array().unwrap().iter().enumerate() {
                if gens[1 + i].to_affine().to_compressed().to_vec() != hx(e) { return Err(format!("{dir}: blind H_{i}")); }
            }
            if let Some(bg) = g.get("blindGenerators") {
                let mg = bg["MsgGenerators"].as_array().map(|a| a.len()).unwrap_or(0);
                let bgens = rm::blind_generators(s, mg + 1).unwrap();
                if bgens[0].to_affine().to_compressed().to_vec() != hx(&bg["Q1"]) { return Err(format!("{dir}: blind Q2")); }
                for (i, e) in bg["MsgGenerators"].as_array().unwrap().iter().enumerate() {
                    if bgens[1 + i].to_affine().to_compressed().to_vec() != hx(e) { return Err(format!("{dir}: blind J_{i}")); }
                }
            }
            n += 1;
        }
        for i in 1..=2 {
            let f = load(&format!("{d}/commit/commit{i:03}.json"));
            let cm = list(&f["committedMessages"]);
            let rs = &f["trace"]["random_scalars"];
            let mt: Vec<Scalar> = rs["m_tildes"].as_array().map(|a| a.iter().map(sc).collect()).unwrap_or_default();
            let mine = rm::commit_with(s, &cm, &sc(&f["proverBlind"]), &sc(&rs["s_tilde"]), &mt).map_err(|e| e.to_string())?;
            if mine != hx(&f["commitmentWithProof"]) { return Err(format!("{dir}: commit{i:03}")); }
            if rm::verify_commitment(s, &mine).is_err() { return Err(format!("{dir}: commit{i:03} verify")); }
            n += 1;
        }
        for i in 1..=5 {
            let f = load(&format!("{d}/signature/signature{i:03}.json"));
            let sk = sc(&f["signerKeyPair"]["secretKey"]);
            let pk = hx(&f["signerKeyPair"]["publicKey"]);
            let pk96: [u8; 96] = pk.as_slice().try_into().unwrap();
            let header = hx(&f["header"]);
            let msgs = list(&f["messages"]);
            let cm = list(&f["committedMessages"]);
            let cwp = f["commitmentWithProof"].as_str().map(|x| hex::decode(x).unwrap()).unwrap_or_default();
            let blind = f["proverBlind"].as_str().map(|x| rm::octets_to_scalar(&hex::decode(x).unwrap()).unwrap()).unwrap_or(Scalar::ZERO);
            let mine = rm::blind_sign(s, &sk, &pk96, &cwp, &header, &msgs).map_err(|e| format!("{dir}: blind signature{i:03}: {e}"))?;
            if mine.to_bytes().to_vec() != hx(&f["signature"]) { return Err(format!("{dir}: blind signature{i:03} sign")); }
            let v = rm::verify_blind(s, &pk, &mine.to_bytes(), &header, &msgs, &cm, &blind).is_ok();
            if v != f["result"]["valid"].as_bool().unwrap() { return Err(format!("{dir}: blind signature{i:03} verify")); }
            n += 1;
        }
        for i in 1..=8 {
            let f = load(&format!("{d}/proof/proof{i:03}.json"));
            let pk = hx(&f["signerPublicKey"]);
            let pk96: [u8; 96] = pk.as_slice().try_into().unwrap();
            let header = hx(&f["header"]);
            let ph = hx(&f["presentationHeader"]);
            let msgs = list(&allm["messages"]);
            let l = f["L"].as_u64().unwrap() as usize;
            let msgs: Vec<Vec<u8>> = msgs.into_iter().take(l).collect();
            let blind = f["proverBlind"].as_str().map(|x| rm::octets_to_scalar(&hex::decode(x).unwrap()).unwrap()).unwrap_or(Scalar::ZERO);
            let unmap = |v: &Value| -> (Vec<usize>, Vec<Vec<u8>>) {
                let mut p: Vec<(usize, Vec<u8>)> = v.as_object().map(|o| o.iter().map(|(k, x)| (k.parse().unwrap(), hx(x))).collect()).unwrap_or_default();
                p.sort();
                (p.iter().map(|x| x.0).collect(), p.into_iter().map(|x| x.1).collect())
            };
            let (didx, dm) = unmap(&f["revealedMessages"]);
            let (dcidx, dcm) = unmap(&f["revealedCommittedMessages"]);
            let proof = hx(&f["proof"]);
            let v = rm::blind_proof_verify(s, &pk, &proof, &header, &ph, l, &dm, &dcm, &didx, &dcidx);
            if v.is_ok() != f["result"]["valid"].as_bool().unwrap() { return Err(format!("{dir}: blind proof{i:03} verify {v:?}")); }
            // regenerate from the trace
            let p = rm::octets_to_proof(&proof, true).unwrap();
            let total = p.m_cap.len() + didx.len() + dcidx.len();
            let m = total - l - 1;
            let cm: Vec<Vec<u8>> = list(&allm["committedMessages"]).into_iter().take(m).collect();
            let (gens, vec) = rm::blind_vector(s, &msgs, &cm, &blind).unwrap();
            let t = &f["trace"];
            let rs = &t["random_scalars"];
            let mut rnd = vec![sc(&rs["r1"]), sc(&rs["r2"]), sc(&rs["e_tilde"]), sc(&rs["r1_tilde"]), sc(&rs["r3_tilde"])];
            for x in rs["m_tilde_scalars"].as_array().unwrap() { rnd.push(sc(x)); }
            let mut idx = didx.clone();
            idx.extend(dcidx.iter().map(|j| j + l + 1));
            let sig = rm::octets_to_signature(&hx(&f["signature"])).unwrap();
            let mine = rm::core_proof_gen(s, &rm::api_id(s, true), &pk96, &sig, &gens, &vec, &idx, &header, &ph, &rnd).map_err(|e| format!("{dir}: blind proof{i:03} gen: {e}"))?;
            if mine.to_bytes() != proof { return Err(format!("{dir}: blind proof{i:03} proof_gen")); }
            n += 1;
        }
    }
    Ok(n)
}
