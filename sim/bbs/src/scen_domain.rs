//! C11: misdelivery is a network fault.  Every honest artefact of (suite s, interface i) is
//! delivered to every foreign endpoint (s', i'); and the generator sets every node creates,
//! in whatever order and interleaving, must be prefix-consistent, duplicate-, identity- and
//! P1-free and disjoint across api_ids.
use crate::api::{self, Bytes, Suite};
use crate::common::*;
use crate::refmodel as rm;
use crate::scen_robust::{make_honest, Honest};
use std::cell::RefCell;
use std::collections::BTreeMap;
use std::rc::Rc;
use std::sync::Arc;
use zksim_core::sim::{Cx, NodeId, StepOpts};

fn endpoint(cx: &mut Cx, node: NodeId, h: Arc<Honest>, art: &'static str, s: Suite, blind_ep: bool, expect_accept: bool) {
    let Some(item) = cx.item() else { return };
    let h2 = h.clone();
    let dm: Vec<Bytes> = h.didx.iter().map(|&i| h.msgs[i].clone()).collect();
    let dcm: Vec<Bytes> = h.dcidx.iter().map(|&i| h.committed[i].clone()).collect();
    cx.step(node, "endpoint", StepOpts::default(), move || {
        let h = h2;
        let msgs = Some(h.msgs.clone());
        match (art, blind_ep) {
            ("signature", false) => api::verify(s, &h.pk, &h.sig, &h.header, &msgs).accepted(),
            ("signature", true) => api::verify_blind(s, &h.pk, &h.sig, &h.header, &msgs, &None, &None).accepted() || api::verify_blind(s, &h.pk, &h.sig, &h.header, &msgs, &Some(h.committed.clone()), &Some(h.blind.clone())).accepted(),
            ("blind_signature", true) => api::verify_blind(s, &h.pk, &h.bsig, &h.header, &msgs, &Some(h.committed.clone()), &Some(h.blind.clone())).accepted(),
            ("blind_signature", false) => api::verify(s, &h.pk, &h.bsig, &h.header, &msgs).accepted() || api::verify(s, &h.pk, &h.bsig, &h.header, &Some([h.msgs.clone(), h.committed.clone()].concat())).accepted(),
            ("proof", false) => api::proof_verify(s, &h.pk, &h.proof, &h.header, &h.ph, &Some(dm.clone()), &Some(h.didx.clone())).accepted(),
            ("proof", true) => (0..=h.msgs.len()).any(|l| api::blind_proof_verify(s, &h.pk, &h.proof, &h.header, &h.ph, Some(l), &Some(dm.clone()), &None, &Some(h.didx.clone()), &None).accepted()),
            ("blind_proof", true) => api::blind_proof_verify(s, &h.pk, &h.bproof, &h.header, &h.ph, Some(h.msgs.len()), &Some(dm.clone()), &Some(dcm.clone()), &Some(h.didx.clone()), &Some(h.dcidx.clone())).accepted(),
            ("blind_proof", false) => api::proof_verify(s, &h.pk, &h.bproof, &h.header, &h.ph, &Some(dm.clone()), &Some(h.didx.clone())).accepted(),
            ("commitment", true) => api::blind_sign(s, &h.sk, &h.pk, &Some(h.cwp.clone()), &h.header, &msgs).is_ok(),
            _ => false,
        }
    }, move |cx, st| {
        cx.cur_item = Some(item);
        let accepted = matches!(st.out, Ok(true));
        cx.eval(&[art.as_bytes(), s.name().as_bytes(), &[blind_ep as u8], &h.pk], true);
        let ep = format!("{}/{}", s.name(), if blind_ep { "blind" } else { "plain" });
        let home = format!("{}/{}", h.suite.name(), if art.starts_with("blind") || art == "commitment" { "blind" } else { "plain" });
        cx.count(&format!("verdict.{}.{}", if expect_accept { "MustAccept" } else { "MustReject" }, if accepted { "accept" } else { "reject" }));
        cx.count(if expect_accept { "fault.none" } else { "fault.misroute" });
        cx.cell(format!("{art}|{home}->{ep}|{accepted}"));
        if expect_accept && !accepted { cx.log(format!("note: honest {art} rejected at its own endpoint {ep} (C01/C03/C05's business)")); }
        if !expect_accept && accepted { cx.violation("C11", format!("misroute/{art}/{home}->{ep}"), format!("{art} made under {home} verifies at endpoint {ep}")); }
        cx.cur_item = None;
    });
}

pub fn run_c11(cx: &mut Cx) {
    cx.preemptions_left = cx.ch.choose("preemptions", 5) as u32;
    let a = cx.node("site-a");
    let b = cx.node("site-b");
    let suite = Suite::from_idx(cx.run_index);
    let l = 1 + cx.ch.choose("L", 6) as usize;
    let m = cx.ch.choose("M", 5) as usize; // an empty committed list included
    let (hk, phk) = (cx.ch.choose("header_kind", 3), cx.ch.choose("ph_kind", 3));
    let seed = cx.run_seed;
    // generator bookkeeping: (suite, api label, count) -> octets, as returned by whichever call
    let seen: Rc<RefCell<BTreeMap<(Suite, u8), Vec<Vec<[u8; 48]>>>>> = Rc::new(RefCell::new(BTreeMap::new()));
    cx.step(a, "honest-session", StepOpts::default(), move || crate::scen_robust::make_honest_with(suite, seed, l, m, hk, phk), move |cx, st| {
        let h = match st.out { Ok(Ok(h)) => Arc::new(h), other => { cx.log(format!("honest session failed: {:?}", other.err())); return; } };
        // complete cross-delivery matrix: 5 artefact kinds x 4 endpoints (own endpoint = control)
        for art in ["signature", "proof", "commitment", "blind_signature", "blind_proof"] {
            let home_blind = art.starts_with("blind") || art == "commitment";
            for s in [h.suite, h.suite.other()] {
                for blind_ep in [false, true] {
                    if art == "commitment" && !blind_ep { continue; } // no plain endpoint takes a commitment
                    let own = s == h.suite && blind_ep == home_blind;
                    let node = if cx.ch.chance("at_b", 1, 2) { b } else { a };
                    endpoint(cx, node, h.clone(), art, s, blind_ep, own);
                }
            }
        }
    });
    // generator sets: counts and api_ids in an order drawn per run, creating calls spread over
    // both nodes so that they interleave (and preempt inside create_generators)
    let n_calls = 6 + cx.ch.choose("gen_calls", 8);
    // kind 7: an api_id nobody has used before in this process (fresh per run), requested in a
    // forced overlap: one long request parked at a generator index drawn per run while the
    // other node issues short and medium requests for the same api_id, then longer ones after
    let fresh = zksim_core::prng::bytes_for(seed, b"fresh-api-id", cx.run_index, 16);
    let s_fresh = Suite::from_idx(cx.ch.choose("g_suite", 2));
    let long_n = 40 + cx.ch.choose("overlap_long", 160) as usize;
    let mut calls: Vec<(Suite, u8, usize, NodeId, StepOpts)> = Vec::new();
    for _ in 0..n_calls {
        let s = Suite::from_idx(cx.ch.choose("g_suite", 2));
        // (kinds 8..10: the fresh api_id of kind 7 followed by LF / CR LF / CR -- identifiers that
        //  differ only in a line terminator are different identifiers)
        let api_kind = { let k = cx.ch.choose("g_api", 10) as u8; if k >= 7 { k + 1 } else { k } };
        let count = match cx.ch.weighted("g_count", &[6, 3, 1]) { 0 => cx.ch.choose("g_n", 9) as usize, 1 => 9 + cx.ch.choose("g_n2", 30) as usize, _ => 200 + cx.ch.choose("g_n3", 80) as usize };
        let node = if cx.ch.chance("g_at_b", 1, 2) { b } else { a };
        calls.push((s, api_kind, count, node, StepOpts::default()));
    }
    if cx.ch.chance("overlap_on_fresh_api_id", 2, 3) {
        cx.count("probe.forced_overlap_on_fresh_api_id");
        let at = 1 + cx.ch.choose("overlap_park_at", long_n as u64);
        calls.push((s_fresh, 7, long_n, a, StepOpts { preempt_at: Some(at), ..Default::default() }));
        for _ in 0..(2 + cx.ch.choose("overlap_short_calls", 4)) { calls.push((s_fresh, 7, 1 + cx.ch.choose("overlap_short_n", 60) as usize, b, StepOpts::default())); }
        calls.push((s_fresh, 7, long_n + 1 + cx.ch.choose("overlap_longer", 30) as usize, b, StepOpts::default()));
        calls.push((s_fresh, 7, 1 + cx.ch.choose("overlap_after_n", long_n as u64) as usize, a, StepOpts::default()));
    }
    for (s, api_kind, count, node, opts) in calls {
        let seen2 = seen.clone();
        let fresh = fresh.clone();
        let fresh2 = fresh.clone();
        cx.step(node, "create_generators", opts, move || {
            // kinds 4..6: long custom api_ids that share their first 240 octets
            let long = |tail: &[u8]| { let mut v = vec![0x41u8; 240]; v.extend_from_slice(tail); v };
            let api: Option<Vec<u8>> = match api_kind { 0 => Some(api::api_id(s, false).to_vec()), 1 => Some(api::api_id(s, true).to_vec()), 2 => Some([b"BLIND_", api::api_id(s, true)].concat()), 3 => None, 4 => Some(long(b"-one")), 5 => Some(long(b"-two")), 7 => Some(fresh), 8 => Some([fresh.as_slice(), b"\n"].concat()), 9 => Some([fresh.as_slice(), b"\r\n"].concat()), 10 => Some([fresh.as_slice(), b"\r"].concat()), _ => Some(long(b"")) };
            api::generators(s, count, api.as_deref())
        }, move |cx, st| {
            let Ok(g) = st.out else { cx.log("create_generators crashed (C08's business)".into()); return; };
            cx.eval(&[b"gens", s.name().as_bytes(), &[api_kind], &(count as u64).to_le_bytes()], true);
            cx.count("n.generator_sets_checked");
            use group::Curve;
            let p1 = rm::p1(s).to_affine().to_compressed();
            let mut id = [0u8; 48]; id[0] = 0xc0;
            let key = format!("{}/api{}", s.name(), api_kind);
            if g.len() != count { cx.violation("C11", "generators/count".into(), format!("{key}: asked {count}, got {}", g.len())); }
            for (i, p) in g.iter().enumerate() {
                if *p == id { cx.violation("C11", "generators/identity".into(), format!("{key}: generator {i} of {count} is the identity")); }
                if *p == p1 { cx.violation("C11", "generators/P1".into(), format!("{key}: generator {i} of {count} equals P1")); }
                if g[..i].contains(p) { cx.violation("C11", "generators/duplicate".into(), format!("{key}: generator {i} of {count} repeats an earlier one")); }
            }
            if (7..=10).contains(&api_kind) {
                if st.preempted > 0 { cx.count("probe.long_request_parked_while_others_ran"); }
                let fresh2: Vec<u8> = match api_kind { 8 => [fresh2.as_slice(), b"\n"].concat(), 9 => [fresh2.as_slice(), b"\r\n"].concat(), 10 => [fresh2.as_slice(), b"\r"].concat(), _ => fresh2.clone() };
                let want: Vec<[u8; 48]> = rm::create_generators(s, count, &fresh2).unwrap().iter().map(|p| p.to_affine().to_compressed()).collect();
                if g != want { cx.violation("C11", "generators/differs-from-model-under-overlap".into(), format!("{key}: create({count}) on the fresh api_id differs from the specification's list (first difference at {:?})", g.iter().zip(&want).position(|(x, y)| x != y))); }
            }
            let mut sn = seen2.borrow_mut();
            // prefix consistency against every earlier set of the same (suite, api_id)
            for prev in sn.get(&(s, api_kind)).cloned().unwrap_or_default() {
                let k = prev.len().min(g.len());
                if prev[..k] != g[..k] { cx.violation("C11", "generators/prefix-inconsistent".into(), format!("{key}: create({}) and create({}) differ within their first {k} points", prev.len(), g.len())); }
            }
            // disjointness against every set of a different api_id (same or other suite)
            for ((s2, a2), sets) in sn.iter() {
                if (*s2, *a2) == (s, api_kind) { continue; }
                for set in sets { if g.iter().any(|p| set.contains(p)) { cx.violation("C11", "generators/shared-across-api-ids".into(), format!("{key} shares a point with {}/api{}", s2.name(), a2)); } }
            }
            sn.entry((s, api_kind)).or_default().push(g);
        });
    }
    // the merged generator list the blind interface builds (signer generators ++ blind generators),
    // for present and absent api_id: no repeated point, no identity, no P1
    for api_present in [true, false] {
        let s = Suite::from_idx(cx.ch.choose("pp_suite", 2));
        let (n, m) = (1 + cx.ch.choose("pp_n", 5) as usize, 1 + cx.ch.choose("pp_m", 5) as usize);
        let node = if cx.ch.chance("pp_at_b", 1, 2) { b } else { a };
        cx.step(node, "prepare_parameters", StepOpts::default(), move || api::merged_blind_generators(s, n, m, api_present), move |cx, st| {
            cx.eval(&[b"pp", s.name().as_bytes(), &[api_present as u8, n as u8, m as u8]], true);
            let Ok(Ok(g)) = st.out else { cx.log("prepare_parameters failed".into()); return; };
            use group::Curve;
            let p1 = rm::p1(s).to_affine().to_compressed();
            let mut id = [0u8; 48]; id[0] = 0xc0;
            let key = format!("{}/prepare_parameters(api_id {})", s.name(), if api_present { "present" } else { "absent" });
            if g.len() != n + m { cx.violation("C11", "generators/count".into(), format!("{key}: {} points for {n}+{m}", g.len())); }
            for (i, p) in g.iter().enumerate() {
                if *p == id { cx.violation("C11", "generators/identity".into(), format!("{key}: point {i} is the identity")); }
                if *p == p1 { cx.violation("C11", "generators/P1".into(), format!("{key}: point {i} equals P1")); }
                if g[..i].contains(p) { cx.violation("C11", "generators/interfaces-share-a-point".into(), format!("{key}: point {i} (blind part starts at {n}) repeats point {}", g[..i].iter().position(|q| q == p).unwrap())); }
            }
        });
    }
    // ... and for interface identifiers of the caller's own, among them identifiers that themselves
    // begin with the label the blind interface prepends ("BLIND_"): the blind part is derived under
    // "BLIND_" || api_id whatever api_id looks like, so the merged list equals the model's and
    // repeats nothing (a helper that adds the label only when it is not there yet derives both
    // halves under the same identifier)
    {
        let s = Suite::from_idx(cx.ch.choose("pp_suite", 2));
        let (n, m) = (1 + cx.ch.choose("pp_n", 5) as usize, 1 + cx.ch.choose("pp_m", 5) as usize);
        let kind = cx.ch.forced("pp_custom_api", 6, cx.run_index / 2);
        let fresh = zksim_core::prng::bytes_for(seed, b"pp-api-id", cx.run_index, 12);
        let node = if cx.ch.chance("pp_at_b", 1, 2) { b } else { a };
        let api: Vec<u8> = match kind { 0 => [b"BLIND_".as_slice(), api::api_id(s, true)].concat(), 1 => b"BLIND_AUCTION_V1_".to_vec(), 2 => b"BLIND_".to_vec(), 3 => [b"BLIND_BLIND_".as_slice(), &fresh].concat(), 4 => [b"blind_".as_slice(), &fresh].concat(), _ => fresh };
        if kind <= 3 { cx.count("probe.interface_id_that_begins_with_the_blind_label"); }
        let api2 = api.clone();
        cx.step(node, "prepare_parameters", StepOpts::default(), move || api::merged_blind_generators_for(s, n, m, Some(&api)), move |cx, st| {
            cx.eval(&[b"pp-custom", s.name().as_bytes(), &[kind as u8, n as u8, m as u8]], true);
            let Ok(Ok(g)) = st.out else { cx.log("prepare_parameters failed".into()); return; };
            use group::Curve;
            let mut want: Vec<[u8; 48]> = rm::create_generators(s, n, &api2).unwrap().iter().map(|p| p.to_affine().to_compressed()).collect();
            want.extend(rm::create_generators(s, m, &[b"BLIND_".as_slice(), &api2].concat()).unwrap().iter().map(|p| p.to_affine().to_compressed()));
            let key = format!("{}/prepare_parameters({n},{m}) under a custom api_id (kind {kind})", s.name());
            if g != want { cx.violation("C11", "generators/blind-list-differs-from-model-for-custom-api-id".into(), format!("{key}: first difference at {:?}", g.iter().zip(&want).position(|(x, y)| x != y))); }
            for (i, p) in g.iter().enumerate() { if g[..i].contains(p) { cx.violation("C11", "generators/interfaces-share-a-point".into(), format!("{key}: point {i} (blind part starts at {n}) repeats point {}", g[..i].iter().position(|q| q == p).unwrap())); break; } }
        });
    }
    // blind-interface generator lists under a forced overlap: a long request (many committed
    // messages) parked inside generator creation while the other node asks for medium ones, a
    // longer one afterwards; every merged list must equal the model's
    // create(n, api_id) ++ create(m, "BLIND_" || api_id) and be free of repeats
    if cx.ch.chance("blind_overlap", 1, 2) {
        cx.count("probe.forced_overlap_on_blind_generators");
        let s = Suite::from_idx(cx.ch.choose("pp_suite", 2));
        let long_m = 65 + cx.ch.choose("bo_long", 70) as usize;
        let park = 2 + cx.ch.choose("bo_park_at", long_m as u64 - 1);
        let mut reqs: Vec<(NodeId, usize, usize, StepOpts)> = vec![(a, 1, long_m, StepOpts { preempt_at: Some(park), ..Default::default() })];
        for _ in 0..(1 + cx.ch.choose("bo_short_calls", 3)) { reqs.push((b, 1 + cx.ch.choose("bo_n", 3) as usize, 33 + cx.ch.choose("bo_m", 40) as usize, StepOpts::default())); }
        reqs.push((b, 2, long_m + 1 + cx.ch.choose("bo_longer", 40) as usize, StepOpts::default()));
        reqs.push((a, 1, 1 + cx.ch.choose("bo_after", long_m as u64) as usize, StepOpts::default()));
        for (node, n, m, opts) in reqs {
            cx.step(node, "prepare_parameters", opts, move || api::merged_blind_generators(s, n, m, true), move |cx, st| {
                cx.eval(&[b"pp-overlap", s.name().as_bytes(), &(n as u64).to_le_bytes(), &(m as u64).to_le_bytes()], true);
                let Ok(Ok(g)) = st.out else { cx.log("prepare_parameters failed".into()); return; };
                use group::Curve;
                let api = rm::api_id(s, true);
                let mut want: Vec<[u8; 48]> = rm::create_generators(s, n, &api).unwrap().iter().map(|p| p.to_affine().to_compressed()).collect();
                want.extend(rm::create_generators(s, m, &[b"BLIND_".as_slice(), &api].concat()).unwrap().iter().map(|p| p.to_affine().to_compressed()));
                let key = format!("{}/prepare_parameters({n},{m})", s.name());
                if g != want { cx.violation("C11", "generators/blind-list-differs-from-model-under-overlap".into(), format!("{key}: first difference at {:?}", g.iter().zip(&want).position(|(x, y)| x != y))); }
                for (i, p) in g.iter().enumerate() { if g[..i].contains(p) { cx.violation("C11", "generators/interfaces-share-a-point".into(), format!("{key}: point {i} repeats point {}", g[..i].iter().position(|q| q == p).unwrap())); break; } }
            });
        }
    }
    cx.run();
    if cx.ch.chance("concurrent_burst", 1, 6) { crate::scen_burst::generator_burst(cx, "C11"); }
}
