//! Executable spec model, written from draft-irtf-cfrg-bbs-signatures-08 and
//! draft-irtf-cfrg-bbs-blind-signatures-01 (with the deviations the repository's blind
//! fixtures pin).  Shares with zkryptium only curve arithmetic, hash-to-curve and the
//! pairing from `bls12_381_plus`; expand_message is implemented here on sha2/sha3.
//! See DESIGN.md Appendix B for the reading decisions.
use crate::api::Suite;
use bls12_381_plus::{multi_miller_loop, G1Affine, G1Projective, G2Affine, G2Prepared, G2Projective, Scalar};
use elliptic_curve::hash2curve::{ExpandMsgXmd, ExpandMsgXof};
use ff::Field;
use group::{Curve, Group};
use sha2::{Digest, Sha256};
use sha3::digest::{ExtendableOutput, Update, XofReader};
use sha3::Shake256;

pub type R<T> = Result<T, &'static str>;

pub fn i2osp(x: u64, n: usize) -> Vec<u8> {
    let b = x.to_be_bytes();
    let mut o = vec![0u8; n];
    if n >= 8 { o[n - 8..].copy_from_slice(&b); } else { o.copy_from_slice(&b[8 - n..]); }
    o
}

pub fn ciphersuite_id(s: Suite) -> &'static [u8] {
    match s {
        Suite::Sha256 => b"BBS_BLS12381G1_XMD:SHA-256_SSWU_RO_",
        Suite::Shake256 => b"BBS_BLS12381G1_XOF:SHAKE-256_SSWU_RO_",
    }
}
pub fn api_id(s: Suite, blind: bool) -> Vec<u8> {
    let mut v = ciphersuite_id(s).to_vec();
    if blind { v.extend_from_slice(b"BLIND_"); }
    v.extend_from_slice(b"H2G_HM2S_");
    v
}
fn cat(parts: &[&[u8]]) -> Vec<u8> {
    let mut v = Vec::new();
    for p in parts { v.extend_from_slice(p); }
    v
}

// RFC 9380 5.3.1 / 5.3.2
pub fn expand_message(s: Suite, msg: &[u8], dst: &[u8], len: usize) -> R<Vec<u8>> {
    if dst.len() > 255 { return Err("dst > 255"); }
    if len > 65535 { return Err("len > 65535"); }
    let mut dst_prime = dst.to_vec();
    dst_prime.push(dst.len() as u8);
    match s {
        Suite::Sha256 => {
            let ell = (len + 31) / 32;
            if ell > 255 { return Err("ell > 255"); }
            let mut h = Sha256::new();
            Digest::update(&mut h, [0u8; 64]);
            Digest::update(&mut h, msg);
            Digest::update(&mut h, i2osp(len as u64, 2));
            Digest::update(&mut h, [0u8]);
            Digest::update(&mut h, &dst_prime);
            let b0 = h.finalize();
            let mut out = Vec::new();
            let mut prev = [0u8; 32];
            for i in 1..=ell {
                let mut h = Sha256::new();
                let mut x = [0u8; 32];
                for k in 0..32 { x[k] = b0[k] ^ prev[k]; }
                Digest::update(&mut h, x);
                Digest::update(&mut h, [i as u8]);
                Digest::update(&mut h, &dst_prime);
                let bi = h.finalize();
                prev.copy_from_slice(&bi);
                out.extend_from_slice(&bi);
            }
            out.truncate(len);
            Ok(out)
        }
        Suite::Shake256 => {
            let mut h = Shake256::default();
            h.update(msg);
            h.update(&i2osp(len as u64, 2));
            h.update(&dst_prime);
            let mut out = vec![0u8; len];
            h.finalize_xof().read(&mut out);
            Ok(out)
        }
    }
}

pub fn hash_to_scalar(s: Suite, msg: &[u8], dst: &[u8]) -> R<Scalar> {
    let u = expand_message(s, msg, dst, 48)?;
    let a: [u8; 48] = u.as_slice().try_into().unwrap();
    Ok(Scalar::from_okm(&a)) // OS2IP(uniform_bytes) mod r
}

pub fn hash_to_curve_g1(s: Suite, msg: &[u8], dst: &[u8]) -> G1Projective {
    match s {
        Suite::Sha256 => G1Projective::hash::<ExpandMsgXmd<Sha256>>(msg, dst),
        Suite::Shake256 => G1Projective::hash::<ExpandMsgXof<Shake256>>(msg, dst),
    }
}

pub fn keygen(s: Suite, ikm: &[u8], key_info: &[u8], key_dst: Option<&[u8]>) -> R<Scalar> {
    if ikm.len() < 32 { return Err("ikm < 32"); }
    if key_info.len() > 65535 { return Err("key_info > 65535"); }
    let default = cat(&[&api_id(s, false), b"KEYGEN_DST_"]);
    let dst = key_dst.unwrap_or(&default);
    let input = cat(&[ikm, &i2osp(key_info.len() as u64, 2), key_info]);
    hash_to_scalar(s, &input, dst)
}
pub fn sk_to_pk(sk: &Scalar) -> [u8; 96] {
    (G2Projective::GENERATOR * sk).to_affine().to_compressed()
}

fn generators_with_seed(s: Suite, count: usize, api_id: &[u8], seed_label: &[u8]) -> R<Vec<G1Projective>> {
    let seed_dst = cat(&[api_id, b"SIG_GENERATOR_SEED_"]);
    let gen_dst = cat(&[api_id, b"SIG_GENERATOR_DST_"]);
    let gen_seed = cat(&[api_id, seed_label]);
    let mut v = expand_message(s, &gen_seed, &seed_dst, 48)?;
    let mut out = Vec::with_capacity(count);
    for i in 1..=count {
        v = expand_message(s, &cat(&[&v, &i2osp(i as u64, 8)]), &seed_dst, 48)?;
        out.push(hash_to_curve_g1(s, &v, &gen_dst));
    }
    Ok(out)
}
pub fn create_generators(s: Suite, count: usize, api_id: &[u8]) -> R<Vec<G1Projective>> {
    generators_with_seed(s, count, api_id, b"MESSAGE_GENERATOR_SEED")
}
/// P1 as the draft defines it (create_generators with the BP seed under the plain api_id)
pub fn p1(s: Suite) -> G1Projective {
    generators_with_seed(s, 1, &api_id(s, false), b"BP_MESSAGE_GENERATOR_SEED").unwrap()[0]
}

pub fn messages_to_scalars(s: Suite, msgs: &[Vec<u8>], api_id: &[u8]) -> R<Vec<Scalar>> {
    let dst = cat(&[api_id, b"MAP_MSG_TO_SCALAR_AS_HASH_"]);
    msgs.iter().map(|m| hash_to_scalar(s, m, &dst)).collect()
}

fn g1b(p: &G1Projective) -> [u8; 48] { p.to_affine().to_compressed() }

pub fn calculate_domain(s: Suite, pk: &[u8; 96], q1: &G1Projective, h: &[G1Projective], header: &[u8], api_id: &[u8]) -> R<Scalar> {
    let mut inp = Vec::new();
    inp.extend_from_slice(pk);
    inp.extend_from_slice(&i2osp(h.len() as u64, 8));
    inp.extend_from_slice(&g1b(q1));
    for p in h { inp.extend_from_slice(&g1b(p)); }
    inp.extend_from_slice(api_id);
    inp.extend_from_slice(&i2osp(header.len() as u64, 8));
    inp.extend_from_slice(header);
    hash_to_scalar(s, &inp, &cat(&[api_id, b"H2S_"]))
}

pub struct Sig { pub a: G1Projective, pub e: Scalar }
impl Sig {
    pub fn to_bytes(&self) -> [u8; 80] {
        let mut o = [0u8; 80];
        o[..48].copy_from_slice(&g1b(&self.a));
        o[48..].copy_from_slice(&self.e.to_be_bytes());
        o
    }
}

pub fn b_value(s: Suite, domain: &Scalar, gens: &[G1Projective], m: &[Scalar]) -> G1Projective {
    let mut b = p1(s) + gens[0] * domain;
    for i in 0..m.len() { b += gens[1 + i] * m[i]; }
    b
}

/// Sign (draft-08 3.5.1 + 3.6.1)
pub fn sign(s: Suite, sk: &Scalar, pk: &[u8; 96], header: &[u8], msgs: &[Vec<u8>]) -> R<Sig> {
    let api = api_id(s, false);
    let m = messages_to_scalars(s, msgs, &api)?;
    let gens = create_generators(s, msgs.len() + 1, &api)?;
    let domain = calculate_domain(s, pk, &gens[0], &gens[1..], header, &api)?;
    let mut e_in = Vec::new();
    e_in.extend_from_slice(&sk.to_be_bytes());
    for x in &m { e_in.extend_from_slice(&x.to_be_bytes()); }
    e_in.extend_from_slice(&domain.to_be_bytes());
    let e = hash_to_scalar(s, &e_in, &cat(&[&api, b"H2S_"]))?;
    let b = b_value(s, &domain, &gens, &m);
    let inv = Option::<Scalar>::from((sk + e).invert()).ok_or("sk + e = 0")?;
    let a = b * inv;
    if bool::from(a.is_identity()) { return Err("A = identity"); }
    Ok(Sig { a, e })
}

pub fn octets_to_scalar(b: &[u8]) -> R<Scalar> {
    let a: [u8; 32] = b.try_into().map_err(|_| "scalar length")?;
    Option::<Scalar>::from(Scalar::from_be_bytes(&a)).ok_or("scalar >= r")
}
pub fn octets_to_g1(b: &[u8], allow_identity: bool) -> R<G1Projective> {
    let a: [u8; 48] = b.try_into().map_err(|_| "g1 length")?;
    let p = Option::<G1Affine>::from(G1Affine::from_compressed(&a)).ok_or("g1 invalid")?;
    if !allow_identity && bool::from(p.is_identity()) { return Err("g1 identity"); }
    Ok(G1Projective::from(p))
}
pub fn octets_to_pubkey(b: &[u8]) -> R<G2Projective> {
    let a: [u8; 96] = b.try_into().map_err(|_| "pk length")?;
    let p = Option::<G2Affine>::from(G2Affine::from_compressed(&a)).ok_or("pk invalid")?;
    if bool::from(p.is_identity()) { return Err("pk identity"); }
    Ok(G2Projective::from(p))
}
pub fn octets_to_signature(b: &[u8]) -> R<Sig> {
    if b.len() != 80 { return Err("signature length"); }
    let a = octets_to_g1(&b[..48], false)?;
    let e = octets_to_scalar(&b[48..])?;
    if bool::from(e.is_zero()) { return Err("e = 0"); }
    Ok(Sig { a, e })
}

fn pairing_check(a1: &G1Projective, b1: &G2Projective, a2: &G1Projective, b2: &G2Projective) -> bool {
    let t1 = (&a1.to_affine(), &G2Prepared::from(b1.to_affine()));
    let t2 = (&a2.to_affine(), &G2Prepared::from(b2.to_affine()));
    bool::from(multi_miller_loop(&[t1, t2]).final_exponentiation().is_identity())
}

/// Verify (draft-08 3.5.2 + 3.6.2) on octets
pub fn verify(s: Suite, pk: &[u8], sig: &[u8], header: &[u8], msgs: &[Vec<u8>]) -> R<()> {
    let w = octets_to_pubkey(pk)?;
    let sg = octets_to_signature(sig)?;
    let api = api_id(s, false);
    let m = messages_to_scalars(s, msgs, &api)?;
    let gens = create_generators(s, msgs.len() + 1, &api)?;
    let pk96: [u8; 96] = pk.try_into().unwrap();
    let domain = calculate_domain(s, &pk96, &gens[0], &gens[1..], header, &api)?;
    let b = b_value(s, &domain, &gens, &m);
    if pairing_check(&sg.a, &(w + G2Projective::GENERATOR * sg.e), &b, &(-G2Projective::GENERATOR)) { Ok(()) } else { Err("pairing") }
}

pub struct Proof { pub abar: G1Projective, pub bbar: G1Projective, pub d: G1Projective, pub e_cap: Scalar, pub r1_cap: Scalar, pub r3_cap: Scalar, pub m_cap: Vec<Scalar>, pub c: Scalar }

impl Proof {
    pub fn to_bytes(&self) -> Vec<u8> {
        let mut o = Vec::new();
        o.extend_from_slice(&g1b(&self.abar));
        o.extend_from_slice(&g1b(&self.bbar));
        o.extend_from_slice(&g1b(&self.d));
        o.extend_from_slice(&self.e_cap.to_be_bytes());
        o.extend_from_slice(&self.r1_cap.to_be_bytes());
        o.extend_from_slice(&self.r3_cap.to_be_bytes());
        for m in &self.m_cap { o.extend_from_slice(&m.to_be_bytes()); }
        o.extend_from_slice(&self.c.to_be_bytes());
        o
    }
}

/// octets_to_proof; `strict` = the draft's rules (identity rejected); otherwise only what
/// is needed to read the fields (used by the witness-holding monitor)
pub fn octets_to_proof(b: &[u8], strict: bool) -> R<Proof> {
    if b.len() < 272 || (b.len() - 272) % 32 != 0 { return Err("proof length"); }
    let abar = octets_to_g1(&b[0..48], !strict)?;
    let bbar = octets_to_g1(&b[48..96], !strict)?;
    let d = octets_to_g1(&b[96..144], !strict)?;
    let mut sc = Vec::new();
    for ch in b[144..].chunks(32) { sc.push(octets_to_scalar(ch)?); }
    let c = sc.pop().unwrap();
    let m_cap = sc.split_off(3);
    Ok(Proof { abar, bbar, d, e_cap: sc[0], r1_cap: sc[1], r3_cap: sc[2], m_cap, c })
}

#[allow(clippy::too_many_arguments)]
pub fn challenge(s: Suite, api: &[u8], disclosed: &[(usize, Scalar)], abar: &G1Projective, bbar: &G1Projective, d: &G1Projective, t1: &G1Projective, t2: &G1Projective, domain: &Scalar, ph: &[u8]) -> R<Scalar> {
    let mut c = Vec::new();
    c.extend_from_slice(&i2osp(disclosed.len() as u64, 8));
    for (i, m) in disclosed {
        c.extend_from_slice(&i2osp(*i as u64, 8));
        c.extend_from_slice(&m.to_be_bytes());
    }
    for p in [abar, bbar, d, t1, t2] { c.extend_from_slice(&g1b(p)); }
    c.extend_from_slice(&domain.to_be_bytes());
    c.extend_from_slice(&i2osp(ph.len() as u64, 8));
    c.extend_from_slice(ph);
    hash_to_scalar(s, &c, &cat(&[api, b"H2S_"]))
}

/// CoreProofVerify over an explicit generator list and scalar messages
#[allow(clippy::too_many_arguments)]
pub fn core_proof_verify(s: Suite, api: &[u8], pk: &[u8], proof: &Proof, gens: &[G1Projective], header: &[u8], ph: &[u8], disclosed: &[(usize, Scalar)]) -> R<()> {
    let w = octets_to_pubkey(pk)?;
    let u = proof.m_cap.len();
    let r = disclosed.len();
    let l = u + r;
    if gens.len() != l + 1 { return Err("generator count"); }
    for w2 in disclosed.windows(2) { if w2[0].0 >= w2[1].0 { return Err("indexes not strictly ascending"); } }
    for (i, _) in disclosed { if *i >= l { return Err("index out of range"); } }
    let pk96: [u8; 96] = pk.try_into().unwrap();
    let domain = calculate_domain(s, &pk96, &gens[0], &gens[1..], header, api)?;
    let t1 = proof.bbar * proof.c + proof.abar * proof.e_cap + proof.d * proof.r1_cap;
    let mut bv = p1(s) + gens[0] * domain;
    for (i, m) in disclosed { bv += gens[1 + i] * m; }
    let mut t2 = bv * proof.c + proof.d * proof.r3_cap;
    let und: Vec<usize> = (0..l).filter(|j| !disclosed.iter().any(|(i, _)| i == j)).collect();
    for (k, j) in und.iter().enumerate() { t2 += gens[1 + j] * proof.m_cap[k]; }
    let cv = challenge(s, api, disclosed, &proof.abar, &proof.bbar, &proof.d, &t1, &t2, &domain, ph)?;
    if cv != proof.c { return Err("challenge"); }
    if pairing_check(&proof.abar, &w, &proof.bbar, &(-G2Projective::GENERATOR)) { Ok(()) } else { Err("pairing") }
}

/// ProofVerify (plain interface) on octets. `dmsgs[k]` belongs to `didx[k]`.
pub fn proof_verify(s: Suite, pk: &[u8], proof: &[u8], header: &[u8], ph: &[u8], dmsgs: &[Vec<u8>], didx: &[usize]) -> R<()> {
    let p = octets_to_proof(proof, true)?;
    if dmsgs.len() != didx.len() { return Err("len mismatch"); }
    let api = api_id(s, false);
    let ms = messages_to_scalars(s, dmsgs, &api)?;
    let disclosed: Vec<(usize, Scalar)> = didx.iter().copied().zip(ms).collect();
    let gens = create_generators(s, p.m_cap.len() + didx.len() + 1, &api)?;
    core_proof_verify(s, &api, pk, &p, &gens, header, ph, &disclosed)
}

// ------------------------------------------------------------------ blind extension

pub fn blind_generators(s: Suite, count: usize) -> R<Vec<G1Projective>> {
    create_generators(s, count, &cat(&[b"BLIND_", &api_id(s, true)]))
}

pub fn blind_challenge(s: Suite, c: &G1Projective, cbar: &G1Projective, gens: &[G1Projective]) -> R<Scalar> {
    let api = api_id(s, true);
    let mut v = Vec::new();
    v.extend_from_slice(&i2osp(gens.len() as u64 - 1, 8));
    for g in gens { v.extend_from_slice(&g1b(g)); }
    v.extend_from_slice(&g1b(c));
    v.extend_from_slice(&g1b(cbar));
    hash_to_scalar(s, &v, &cat(&[&api, b"H2S_"]))
}

pub struct CommitProof { pub c: G1Projective, pub s_cap: Scalar, pub m_cap: Vec<Scalar>, pub chal: Scalar }

pub fn octets_to_commitment(b: &[u8]) -> R<CommitProof> {
    if b.len() < 48 + 64 || (b.len() - 48) % 32 != 0 { return Err("commitment length"); }
    let c = octets_to_g1(&b[..48], true)?;
    let mut sc = Vec::new();
    for ch in b[48..].chunks(32) { sc.push(octets_to_scalar(ch)?); }
    let chal = sc.pop().unwrap();
    let m_cap = sc.split_off(1);
    Ok(CommitProof { c, s_cap: sc[0], m_cap, chal })
}

/// commitment with given randomness (s~, m~) and blind factor: reproduces the fixtures
pub fn commit_with(s: Suite, committed: &[Vec<u8>], blind: &Scalar, s_tilde: &Scalar, m_tilde: &[Scalar]) -> R<Vec<u8>> {
    let api = api_id(s, true);
    let ms = messages_to_scalars(s, committed, &api)?;
    let g = blind_generators(s, ms.len() + 1)?;
    let mut c = g[0] * blind;
    let mut cbar = g[0] * s_tilde;
    for i in 0..ms.len() { c += g[1 + i] * ms[i]; cbar += g[1 + i] * m_tilde[i]; }
    let chal = blind_challenge(s, &c, &cbar, &g)?;
    let mut o = Vec::new();
    o.extend_from_slice(&g1b(&c));
    o.extend_from_slice(&(s_tilde + blind * chal).to_be_bytes());
    for i in 0..ms.len() { o.extend_from_slice(&(m_tilde[i] + ms[i] * chal).to_be_bytes()); }
    o.extend_from_slice(&chal.to_be_bytes());
    Ok(o)
}

pub fn verify_commitment(s: Suite, cwp: &[u8]) -> R<G1Projective> {
    if cwp.is_empty() { return Ok(G1Projective::IDENTITY); }
    let cp = octets_to_commitment(cwp)?;
    let g = blind_generators(s, cp.m_cap.len() + 1)?;
    let mut cbar = g[0] * cp.s_cap;
    for i in 0..cp.m_cap.len() { cbar += g[1 + i] * cp.m_cap[i]; }
    cbar -= cp.c * cp.chal;
    if blind_challenge(s, &cp.c, &cbar, &g)? != cp.chal { return Err("commitment proof"); }
    Ok(cp.c)
}

/// BlindSign as pinned by fixture_data_blind
pub fn blind_sign(s: Suite, sk: &Scalar, pk: &[u8; 96], cwp: &[u8], header: &[u8], msgs: &[Vec<u8>]) -> R<Sig> {
    let api = api_id(s, true);
    let c = verify_commitment(s, cwp)?;
    let m_count = if cwp.is_empty() { 0 } else { (cwp.len() - 48 - 64) / 32 };
    let gens = create_generators(s, msgs.len() + 1, &api)?;
    let bg = blind_generators(s, m_count + 1)?;
    let ms = messages_to_scalars(s, msgs, &api)?;
    let mut b = p1(s);
    for i in 0..ms.len() { b += gens[1 + i] * ms[i]; }
    b += c;
    if bool::from(b.is_identity()) { return Err("B = identity"); }
    let mut hs: Vec<G1Projective> = gens[1..].to_vec();
    hs.extend_from_slice(&bg);
    let domain = calculate_domain(s, pk, &gens[0], &hs, header, &api)?;
    let b = b + gens[0] * domain;
    let mut e_in = Vec::new();
    e_in.extend_from_slice(&sk.to_be_bytes());
    e_in.extend_from_slice(&g1b(&b));
    let e = hash_to_scalar(s, &e_in, &cat(&[&api, b"H2S_"]))?;
    let inv = Option::<Scalar>::from((sk + e).invert()).ok_or("sk + e = 0")?;
    Ok(Sig { a: b * inv, e })
}

/// the (generators, message scalars) vector a blind signature/proof is checked against
pub fn blind_vector(s: Suite, msgs: &[Vec<u8>], committed: &[Vec<u8>], blind: &Scalar) -> R<(Vec<G1Projective>, Vec<Scalar>)> {
    let api = api_id(s, true);
    let mut gens = create_generators(s, msgs.len() + 1, &api)?;
    gens.extend(blind_generators(s, committed.len() + 1)?);
    let mut m = messages_to_scalars(s, msgs, &api)?;
    m.push(*blind);
    m.extend(messages_to_scalars(s, committed, &api)?);
    Ok((gens, m))
}

pub fn verify_blind(s: Suite, pk: &[u8], sig: &[u8], header: &[u8], msgs: &[Vec<u8>], committed: &[Vec<u8>], blind: &Scalar) -> R<()> {
    let w = octets_to_pubkey(pk)?;
    let sg = octets_to_signature(sig)?;
    let api = api_id(s, true);
    let (gens, m) = blind_vector(s, msgs, committed, blind)?;
    let pk96: [u8; 96] = pk.try_into().unwrap();
    let domain = calculate_domain(s, &pk96, &gens[0], &gens[1..], header, &api)?;
    let b = b_value(s, &domain, &gens, &m);
    if pairing_check(&sg.a, &(w + G2Projective::GENERATOR * sg.e), &b, &(-G2Projective::GENERATOR)) { Ok(()) } else { Err("pairing") }
}

/// BlindProofVerify on octets
#[allow(clippy::too_many_arguments)]
pub fn blind_proof_verify(s: Suite, pk: &[u8], proof: &[u8], header: &[u8], ph: &[u8], l: usize, dmsgs: &[Vec<u8>], dcmsgs: &[Vec<u8>], didx: &[usize], dcidx: &[usize]) -> R<()> {
    let p = octets_to_proof(proof, true)?;
    if dmsgs.len() != didx.len() || dcmsgs.len() != dcidx.len() { return Err("len mismatch"); }
    let api = api_id(s, true);
    let total = p.m_cap.len() + didx.len() + dcidx.len();
    if total < l + 1 { return Err("L too large"); }
    let m = total - l - 1;
    for i in didx { if *i >= l { return Err("index out of range"); } }
    for j in dcidx { if *j >= m { return Err("committed index out of range"); } }
    let mut gens = create_generators(s, l + 1, &api)?;
    gens.extend(blind_generators(s, m + 1)?);
    let a = messages_to_scalars(s, dmsgs, &api)?;
    let b = messages_to_scalars(s, dcmsgs, &api)?;
    let mut disclosed: Vec<(usize, Scalar)> = didx.iter().copied().zip(a).collect();
    disclosed.extend(dcidx.iter().map(|j| j + l + 1).zip(b));
    core_proof_verify(s, &api, pk, &p, &gens, header, ph, &disclosed)
}

/// ProofGen with given random scalars (r1, r2, e~, r1~, r3~, m~...) over an explicit vector:
/// reproduces the proof fixtures
#[allow(clippy::too_many_arguments)]
pub fn core_proof_gen(s: Suite, api: &[u8], pk: &[u8; 96], sig: &Sig, gens: &[G1Projective], m: &[Scalar], disclosed_idx: &[usize], header: &[u8], ph: &[u8], rnd: &[Scalar]) -> R<Proof> {
    let l = m.len();
    if gens.len() != l + 1 { return Err("generator count"); }
    let und: Vec<usize> = (0..l).filter(|j| !disclosed_idx.contains(j)).collect();
    if rnd.len() != 5 + und.len() { return Err("random scalar count"); }
    let domain = calculate_domain(s, pk, &gens[0], &gens[1..], header, api)?;
    let b = b_value(s, &domain, gens, m);
    let (r1, r2, et, r1t, r3t) = (rnd[0], rnd[1], rnd[2], rnd[3], rnd[4]);
    let d = b * r2;
    let abar = sig.a * (r1 * r2);
    let bbar = d * r1 - abar * sig.e;
    let t1 = abar * et + d * r1t;
    let mut t2 = d * r3t;
    for (k, j) in und.iter().enumerate() { t2 += gens[1 + j] * rnd[5 + k]; }
    let mut di: Vec<usize> = disclosed_idx.to_vec();
    di.sort();
    di.dedup();
    let disclosed: Vec<(usize, Scalar)> = di.iter().map(|&i| (i, m[i])).collect();
    let c = challenge(s, api, &disclosed, &abar, &bbar, &d, &t1, &t2, &domain, ph)?;
    let r3 = Option::<Scalar>::from(r2.invert()).ok_or("r2 = 0")?;
    Ok(Proof {
        abar, bbar, d,
        e_cap: et + sig.e * c,
        r1_cap: r1t - r1 * c,
        r3_cap: r3t - r3 * c,
        m_cap: und.iter().enumerate().map(|(k, j)| rnd[5 + k] + m[*j] * c).collect(),
        c,
    })
}
