//! Shared by all BBS scenarios: swarm workload generation, the ideal functionality
//! (DESIGN.md §4.1) and verdict bookkeeping.
use crate::api::{Bytes, Opt, OptIdx, OptList, Res, Suite};
use std::collections::BTreeMap;
use zksim_core::prng::bytes_for;
use zksim_core::sim::{Crash, Cx};
use zksim_core::wire::norm;

// ------------------------------------------------------------------ workload

pub fn gen_suite(cx: &mut Cx) -> Suite {
    Suite::from_idx(cx.ch.choose("suite", 2))
}

/// key material >= 32 bytes (length varied) and key_info
pub fn gen_key_material(cx: &mut Cx, tag: u64) -> (Bytes, Opt) {
    let len = match cx.ch.weighted("ikm_len", &[6, 2, 2, 1]) { 0 => 32, 1 => 33, 2 => 64, _ => 32 + cx.ch.choose("ikm_extra", 200) as usize };
    let ikm = bytes_for(cx.run_seed, b"ikm", tag, len);
    let info = match cx.ch.weighted("key_info", &[4, 2, 3, 1]) {
        0 => None,
        1 => Some(Vec::new()),
        2 => { let n = 1 + cx.ch.choose("key_info_len", 48) as usize; Some(bytes_for(cx.run_seed, b"kinfo", tag, n)) }
        _ => Some(bytes_for(cx.run_seed, b"kinfo", tag, 300)),
    };
    (ikm, info)
}

/// header / presentation header in {absent, empty, 1..300 bytes, rarely 65536+}
pub fn gen_octets(cx: &mut Cx, label: &str, tag: u64) -> Opt {
    let big = if cx.thorough { 1 } else { 0 };
    match cx.ch.weighted(label, &[3, 2, 5, 2, 1, big]) {
        0 => None,
        1 => Some(Vec::new()),
        2 => { let n = 1 + cx.ch.choose("oct_len", 40) as usize; Some(bytes_for(cx.run_seed, label.as_bytes(), tag, n)) }
        3 => { let n = [255usize, 256, 257, 300, 4095, 4096, 4097, 6000][cx.ch.choose("oct_len_b", 8) as usize]; Some(bytes_for(cx.run_seed, label.as_bytes(), tag, n)) }
        // a structured header as JWP / VC stacks use them: a JSON object, not in canonical form
        4 if cx.ch.chance("json_header", 1, 2) => Some(format!("{{\"iss\": \"https://issuer.example/{}\",\"exp\":{}, \"alg\":\"BBS\"}}", tag, 1_790_000_000u64 + (cx.run_seed & 0xffff)).into_bytes()),
        4 => Some(bytes_for(cx.run_seed, label.as_bytes(), tag, 16)),
        _ => Some(bytes_for(cx.run_seed, label.as_bytes(), tag, 65536 + cx.ch.choose("oct_len_big", 3) as usize)),
    }
}

pub fn gen_count(cx: &mut Cx, label: &str, small_only: bool) -> usize {
    // index 0 = simplest
    // small_only (the corrupting checks deliver ~100 frames per session): the sizes around 32, 64
    // and 128 at a lower rate and those around 256 rarely, never the huge ones
    let huge = if cx.thorough && !small_only { 1 } else { 0 };
    let (w_edge, w_256) = if small_only { (2, 2) } else { (3, 2) };
    match cx.ch.weighted(label, &[10, 3, 6, w_256, huge, w_edge]) {
        0 => cx.ch.choose("count_small", 7) as usize,            // 0..=6
        1 => 0,
        2 => 7 + cx.ch.choose("count_mid", 11) as usize,          // 7..=17
        3 => [255usize, 256, 257, 258][cx.ch.choose("count_256", 4) as usize],
        4 => 1000 + cx.ch.choose("count_huge", 2000) as usize,
        _ => [31usize, 32, 33, 63, 64, 65, 127, 128, 129][cx.ch.choose("count_edge", 9) as usize],
    }
}

pub fn gen_message(cx: &mut Cx, tag: u64) -> Bytes {
    // (a message of 64 KiB and more: rare in the quick tier, regular in the thorough one)
    let big = if cx.thorough { 3 } else { 1 };
    let len = match cx.ch.weighted("msg_len", &[24, 6, 6, 9, 9, 3, big]) {
        0 => 1 + cx.ch.choose("msg_len_s", 24) as usize,
        1 => 0,
        2 => 1,
        3 => 31 + cx.ch.choose("msg_len_32", 3) as usize,
        4 => 47 + cx.ch.choose("msg_len_48", 3) as usize,
        5 => 1024,
        _ => [65535usize, 65536, 70000][cx.ch.choose("msg_len_64k", 3) as usize],
    };
    bytes_for(cx.run_seed, b"msg", tag, len)
}

/// L messages; unique per (run, tag base, index) unless a duplicate is requested on purpose
/// the list lengths around 32 / 64 / 128 / 256, most telling first; the corrupting checks walk
/// through them on every fourth run (a batch of 52 runs covers them all)
pub const EDGE_SIZES: [usize; 13] = [128, 257, 64, 32, 129, 256, 33, 65, 127, 258, 63, 31, 255];

pub fn gen_messages(cx: &mut Cx, label: &str, tag_base: u64, small_only: bool) -> Vec<Bytes> {
    let l = if small_only && cx.run_index % 4 == 3 { cx.count("probe.list_length_at_a_power_of_two_edge"); EDGE_SIZES[cx.ch.forced("edge_size", 13, cx.run_index / 4) as usize] } else { gen_count(cx, label, small_only) };
    let mut v: Vec<Bytes> = Vec::with_capacity(l);
    // long lists: 1 in 3 carries repeated messages (padding attributes, several empty ones)
    let long_repeats = l > 20 && cx.ch.chance("long_list_with_repeats", 1, 3);
    if long_repeats { cx.count("n.workload_long_list_with_repeats"); }
    // framing-ambiguous neighbours: x and x SEP x for a separator somebody might join lists with
    // (swapping them leaves a separator-joined encoding of the list unchanged)
    let sep_pair = l >= 2 && l <= 20 && cx.ch.chance("separator_ambiguous_pair", 1, 6);
    let sep = [0x00u8, b',', b'\n', 0x1f, b'|'][cx.ch.choose("separator", 5) as usize];
    if sep_pair { cx.count("n.workload_separator_ambiguous_pair"); }
    for i in 0..l {
        if sep_pair && i < 2 {
            let x = bytes_for(cx.run_seed, b"sep-x", tag_base, 3);
            v.push(if i == 0 { x } else { [x.clone(), vec![sep], x].concat() });
            continue;
        }
        if i > 0 && l <= 20 && cx.ch.chance("dup_msg", 1, 10) {
            let j = cx.ch.choose("dup_of", i as u64) as usize;
            let m = v[j].clone();
            v.push(m);
            cx.count("n.workload_duplicate_message");
        } else if l > 20 {
            if long_repeats && i % 5 == 4 { v.push(if i % 10 == 9 { Vec::new() } else { v[i - 3].clone() }); continue; }
            v.push(bytes_for(cx.run_seed, b"msg", tag_base * 100_000 + i as u64, 1 + (i % 40)));
        } else {
            v.push(gen_message(cx, tag_base * 100_000 + i as u64));
        }
    }
    v
}

/// present a list as absent when it is empty (sometimes) -- the API treats both alike
pub fn as_optlist(cx: &mut Cx, v: Vec<Bytes>) -> OptList {
    if v.is_empty() && cx.ch.chance("list_absent", 1, 2) { None } else { Some(v) }
}

pub fn lnorm(l: &OptList) -> &[Bytes] {
    l.as_deref().unwrap_or(&[])
}
pub fn inorm(l: &OptIdx) -> &[usize] {
    l.as_deref().unwrap_or(&[])
}

pub fn shape_bucket(l: usize) -> &'static str {
    match l { 0 => "L0", 1 => "L1", 2..=6 => "L2-6", 7..=17 => "L7-17", 18..=300 => "L18-300", _ => "L300+" }
}

// ------------------------------------------------------------------ ideal functionality

#[derive(Clone, Debug, PartialEq, Eq)]
pub struct SigStmt {
    pub suite: Suite,
    pub blind_iface: bool,
    pub pk: Bytes,
    pub header: Bytes,
    pub msgs: Vec<Bytes>,
    pub committed: Vec<Bytes>,
    /// 32 octets; all zero when no blind factor
    pub blind: Bytes,
}

#[derive(Clone, Debug, PartialEq, Eq)]
pub struct ProofStmt {
    pub suite: Suite,
    pub blind_iface: bool,
    pub pk: Bytes,
    pub header: Bytes,
    pub ph: Bytes,
    pub disclosed: BTreeMap<usize, Bytes>,
    pub disclosed_committed: BTreeMap<usize, Bytes>,
    /// signer-message count (blind interface only)
    pub l: usize,
}

#[derive(Clone, Copy, Debug, PartialEq, Eq)]
pub enum Verdict { MustAccept, MustReject, DontCare }

#[derive(Default)]
pub struct Ideal {
    pub sigs: BTreeMap<Bytes, Vec<SigStmt>>,
    pub proofs: BTreeMap<Bytes, Vec<ProofStmt>>,
    pub commits: BTreeMap<Bytes, Vec<(Suite, Vec<Bytes>)>>,
}

/// Some(map) if the (index, message) lists are a canonical presentation (strictly ascending
/// indexes, equal lengths); None otherwise
fn canonical_pairs(idx: &[usize], msgs: &[Bytes]) -> Option<BTreeMap<usize, Bytes>> {
    if idx.len() != msgs.len() { return None; }
    if idx.windows(2).any(|w| w[0] >= w[1]) { return None; }
    Some(idx.iter().copied().zip(msgs.iter().cloned()).collect())
}
/// the set of pairs if the lists are a consistent (possibly permuted / duplicated) presentation
fn loose_pairs(idx: &[usize], msgs: &[Bytes]) -> Option<BTreeMap<usize, Bytes>> {
    if idx.len() != msgs.len() { return None; }
    let mut m = BTreeMap::new();
    for (i, x) in idx.iter().zip(msgs) {
        if let Some(prev) = m.insert(*i, x.clone()) { if &prev != x { return None; } }
    }
    Some(m)
}

impl Ideal {
    pub fn register_sig(&mut self, sig: &[u8], st: SigStmt) {
        self.sigs.entry(sig.to_vec()).or_default().push(st);
    }
    pub fn register_proof(&mut self, proof: &[u8], st: ProofStmt) {
        self.proofs.entry(proof.to_vec()).or_default().push(st);
    }
    pub fn register_commit(&mut self, cwp: &[u8], suite: Suite, committed: Vec<Bytes>) {
        self.commits.entry(cwp.to_vec()).or_default().push((suite, committed));
    }

    #[allow(clippy::too_many_arguments)]
    pub fn judge_sig(&self, suite: Suite, blind_iface: bool, pk: &[u8], sig: &[u8], header: &Opt, msgs: &OptList, committed: &OptList, blind: &Opt) -> Verdict {
        let Some(sts) = self.sigs.get(sig) else { return Verdict::MustReject };
        let zero = vec![0u8; 32];
        let b: &[u8] = blind.as_deref().unwrap_or(&zero);
        for st in sts {
            if st.suite == suite && st.blind_iface == blind_iface && st.pk == pk && st.header == norm(header) && st.msgs.as_slice() == lnorm(msgs) && st.committed.as_slice() == lnorm(committed) && st.blind == b {
                return Verdict::MustAccept;
            }
        }
        Verdict::MustReject
    }

    #[allow(clippy::too_many_arguments)]
    pub fn judge_proof(&self, suite: Suite, blind_iface: bool, pk: &[u8], proof: &[u8], header: &Opt, ph: &Opt, l: Option<usize>, dmsgs: &OptList, didx: &OptIdx, dcmsgs: &OptList, dcidx: &OptIdx) -> Verdict {
        let Some(sts) = self.proofs.get(proof) else { return Verdict::MustReject };
        let mut loose = false;
        for st in sts {
            if !(st.suite == suite && st.blind_iface == blind_iface && st.pk == pk && st.header == norm(header) && st.ph == norm(ph)) { continue; }
            if blind_iface && st.l != l.unwrap_or(0) { continue; }
            let a = canonical_pairs(inorm(didx), lnorm(dmsgs));
            let b = canonical_pairs(inorm(dcidx), lnorm(dcmsgs));
            if a.as_ref() == Some(&st.disclosed) && b.as_ref() == Some(&st.disclosed_committed) { return Verdict::MustAccept; }
            let a = loose_pairs(inorm(didx), lnorm(dmsgs));
            let b = loose_pairs(inorm(dcidx), lnorm(dcmsgs));
            if a.as_ref() == Some(&st.disclosed) && b.as_ref() == Some(&st.disclosed_committed) { loose = true; }
        }
        if loose { Verdict::DontCare } else { Verdict::MustReject }
    }

    /// is this request byte-identical to an honest one for this suite?
    pub fn judge_commit(&self, suite: Suite, cwp: &Opt) -> Verdict {
        let b = norm(cwp);
        if b.is_empty() { return Verdict::MustAccept; } // "no commitment" is always a legitimate request
        match self.commits.get(b) {
            Some(v) if v.iter().any(|(s, _)| *s == suite) => Verdict::MustAccept,
            _ => Verdict::MustReject,
        }
    }
}

/// What a verifying step did, from the peer's point of view.
#[derive(Clone, Debug, PartialEq, Eq)]
pub enum Seen { Accept, Reject, Boundary, Crash(String) }

pub fn seen_of(out: &Result<Res, Crash>) -> Seen {
    match out {
        Ok(Res::Accept) => Seen::Accept,
        Ok(Res::Reject(_)) => Seen::Reject,
        Ok(Res::Boundary(_)) => Seen::Boundary,
        Err(Crash::Panic(m)) => Seen::Crash(m.clone()),
        Err(Crash::Budget(t, s)) => Seen::Crash(format!("work budget tripped after {t} ticks in {s}")),
    }
}

/// Evaluate a verdict against what the node did and record it.  `complete_prop` is charged
/// when a MustAccept frame is not accepted, `sound_prop` when a MustReject frame is accepted.
/// A crash of a BBS node counts as "not accepted" here and is left to C08 (recorded as a note).
#[allow(clippy::too_many_arguments)]
pub fn settle(cx: &mut Cx, complete_prop: &str, sound_prop: &str, entry: &str, fault: &str, verdict: Verdict, seen: &Seen, detail: impl FnOnce() -> String) {
    let v = match verdict { Verdict::MustAccept => "MustAccept", Verdict::MustReject => "MustReject", Verdict::DontCare => "DontCare" };
    let s = match seen { Seen::Accept => "accept", Seen::Reject => "reject", Seen::Boundary => "boundary", Seen::Crash(_) => "crash" };
    cx.count(&format!("verdict.{v}.{s}"));
    cx.count(&format!("fault.{fault}"));
    cx.cell(format!("{entry}|{fault}|{v}|{s}"));
    if let Seen::Crash(m) = seen {
        cx.count("n.node_crash_left_to_C08");
        let m = m.clone();
        cx.log(format!("note: {entry} crashed under {fault}: {m} (C08's business)"));
    }
    match (verdict, seen) {
        (Verdict::MustAccept, Seen::Accept) | (Verdict::DontCare, _) => {}
        (Verdict::MustAccept, _) => {
            let d = detail();
            cx.violation(complete_prop, format!("{entry}/MustAccept-not-accepted/{fault}"), format!("{s}: {d}"));
        }
        (Verdict::MustReject, Seen::Accept) => {
            let d = detail();
            cx.violation(sound_prop, format!("{entry}/MustReject-accepted/{fault}"), d);
        }
        (Verdict::MustReject, Seen::Crash(m)) => {
            // the property asks for an error VALUE; a verifier that dies on a tampered frame does
            // not return one (C08 sees the same event as a crash of the node)
            let d = detail();
            cx.violation(sound_prop, format!("{entry}/MustReject-crashed/{fault}"), format!("{m}: {d}"));
        }
        (Verdict::MustReject, _) => {}
    }
}

pub fn hexs(b: &[u8]) -> String {
    let h = hex::encode(b);
    if h.len() > 48 { format!("{}..({}B)", &h[..48], b.len()) } else { h }
}
pub fn opt_s(o: &Opt) -> String {
    match o { None => "absent".into(), Some(v) => format!("[{}]", hexs(v)) }
}
pub fn list_s(l: &OptList) -> String {
    match l { None => "absent".into(), Some(v) => format!("{}x[{}]", v.len(), v.iter().take(4).map(|m| hexs(m)).collect::<Vec<_>>().join(",")) }
}
