//! C12: a credential evolves through a history of single-message updates requested over a
//! channel that reorders, duplicates and corrupts the requests; the Issuer applies them in
//! arrival order; a sequential model (vector of messages + e) is the oracle.
use crate::api::{self, Bytes, Suite};
use crate::common::*;
use crate::refmodel as rm;
use std::cell::RefCell;
use std::rc::Rc;
use zksim_core::prng::bytes_for;
use zksim_core::sim::{Cx, NodeId, StepOpts};
use zksim_core::wire::int_corruptions;

struct Model {
    suite: Suite,
    sk: Bytes,
    pk: Bytes,
    header: Option<Bytes>,
    /// epoch k -> (vector, signature octets)
    epochs: Vec<(Vec<Bytes>, Bytes)>,
    e: Bytes,
}

#[derive(Clone, Debug)]
struct Req { index: usize, old: Bytes, new: Bytes, tag: String }

pub fn run_c12(cx: &mut Cx) {
    let issuer = cx.node("issuer");
    let holder = cx.node("holder");
    // one or two credentials evolve on the same nodes; the second one uses the other suite
    let first = gen_suite(cx);
    let n_cred = 1 + cx.ch.choose("credentials", 2);
    for c in 0..n_cred {
        let suite = if c == 0 { first } else { first.other() };
        credential(cx, c, suite, issuer, holder);
    }
    cx.run();
    if cx.ch.chance("concurrent_burst", 1, 6) { crate::scen_burst::update_burst(cx); }
}

fn credential(cx: &mut Cx, c: u64, suite: Suite, issuer: NodeId, holder: NodeId) {
    // mostly short credentials; 1 in 8 is a long one (around 64 / 128 / 256 messages) updated at
    // the positions around those sizes and at its last position
    let long = !(cx.run_index % 4 == 0 && c == 0) && cx.ch.chance("long_credential", 1, 8);
    let l = if cx.run_index % 4 == 0 && c == 0 { 1 + (cx.run_index / 4 % 6) as usize } else if long { [65usize, 129, 254, 255, 256, 257, 300][cx.ch.choose("L_long", 7) as usize] } else { 1 + cx.ch.choose("L", 12) as usize };
    if long { cx.count("probe.long_credential_updated_near_its_end"); }
    let seed = cx.run_seed ^ (c << 32);
    let header = gen_octets(cx, "header", c);
    let msgs: Vec<Bytes> = (0..l).map(|i| if cx.ch.chance("empty_initial", 1, 8) { Vec::new() } else { bytes_for(seed, b"u-m", i as u64, 4 + i % 9) }).collect();
    let (h1, m1) = (header.clone(), msgs.clone());
    cx.log(format!("credential {c}: suite={} L={l}", suite.name()));
    cx.step(issuer, "issue", StepOpts::default(), move || { let (sk, pk) = api::keygen(suite, &bytes_for(seed, b"ikm", 0, 32), None, None)?; let sig = api::sign(suite, &sk, &pk, &h1, &Some(m1))?; Ok::<_, String>((sk, pk, sig)) }, move |cx, st| {
        let Ok(Ok((sk, pk, sig))) = st.out else { cx.log("issuance failed (C01's business)".into()); return; };
        let model = Rc::new(RefCell::new(Model { suite, sk, pk, header, e: sig[48..].to_vec(), epochs: vec![(msgs.clone(), sig)] }));
        // the holder's intended history: k updates; positions exhaustively for small L
        let k = 1 + cx.ch.choose("updates", if cx.thorough { 32 } else { 10 }) as usize;
        let mut reqs: Vec<Req> = Vec::new();
        let mut cur = msgs.clone();
        for j in 0..k {
            let index = if l <= 6 { (j + cx.run_index as usize) % l } else if long { let cands = [l - 1, l - 2, 0, 63, 64, 127, 128, 253, 254, 255, 256]; let c: Vec<usize> = cands.iter().copied().filter(|&i| i < l).collect(); c[cx.ch.choose("index_long", c.len() as u64) as usize] } else { cx.ch.choose("index", l as u64) as usize };
            // the new value: unrelated to the old one, equal to it, empty -- or RELATED to it (the old
            // value extended by 1 / 255 / 256 / 257 / 512 octets, or cut by 256): a comparison of
            // old and new that looks at a prefix or at a truncated length sees no change there;
            // rarely a value of 65535 / 65536 / 70000 octets
            let new = if cx.ch.chance("same_value", 1, 12) { cur[index].clone() } else if cx.ch.chance("empty_value", 1, 8) { Vec::new() }
                else if cx.ch.chance("related_value", 1, 5) { cx.count("probe.new_value_related_to_the_old_one"); let pad = [1usize, 255, 256, 257, 512][cx.ch.choose("related_pad", 5) as usize]; if cur[index].len() > 256 && cx.ch.chance("related_cut", 1, 2) { cur[index][..cur[index].len() - 256].to_vec() } else { let mut v = cur[index].clone(); v.extend(std::iter::repeat(if cx.ch.chance("pad_zero", 1, 2) { 0u8 } else { 7 }).take(pad)); v } }
                else if cx.ch.chance("huge_value", 1, 40) { cx.count("probe.value_of_64KiB"); bytes_for(seed, b"u-huge", j as u64, [65535usize, 65536, 70000][cx.ch.choose("huge_len", 3) as usize]) }
                else { bytes_for(seed, b"u-new", j as u64, 3 + j % 7) };
            reqs.push(Req { index, old: cur[index].clone(), new: new.clone(), tag: format!("c{c}u{j}") });
            cur[index] = new;
        }
        // channel faults on the request stream: reorder (swap neighbours), duplicate, corrupt
        let mut stream = reqs.clone();
        let nf = cx.ch.choose("stream_faults", 4);
        for _ in 0..nf {
            if stream.is_empty() { break; }
            let p = cx.ch.choose("fault_pos", stream.len() as u64) as usize;
            match cx.ch.choose("fault_kind", 6) {
                0 => { if p + 1 < stream.len() { stream.swap(p, p + 1); cx.count("fault.frame_reorder"); } }
                1 => { let d = stream[p].clone(); stream.insert(p, Req { tag: format!("{}-dup", d.tag), ..d }); cx.count("fault.frame_dup"); }
                2 => { let cs = int_corruptions(stream[p].index, l); stream[p].index = cs[cx.ch.choose("int", cs.len() as u64) as usize]; stream[p].tag.push_str("-idx"); cx.count("fault.int_corrupt"); }
                3 => { stream[p].old.push(0x55); stream[p].tag.push_str("-old"); cx.count("fault.elem_alter_old"); }
                // a corrupted position on a request that changes nothing (new value == old value): a
                // shortcut for "nothing to do" taken before the range check lets it through
                5 => { let cs = int_corruptions(stream[p].index, l); stream[p].index = cs[cx.ch.choose("int", cs.len() as u64) as usize]; stream[p].new = stream[p].old.clone(); stream[p].tag.push_str("-idx-noop"); cx.count("fault.int_corrupt"); cx.count("probe.corrupted_position_on_a_request_that_changes_nothing"); }
                _ => { stream.remove(p); cx.count("fault.frame_drop"); }
            }
        }
        apply_next(cx, issuer, holder, model, stream, 0, l);
    });
}

/// the Issuer applies the requests in arrival order, each on the signature of the current epoch
fn apply_next(cx: &mut Cx, issuer: NodeId, holder: NodeId, model: Rc<RefCell<Model>>, stream: Vec<Req>, pos: usize, l: usize) {
    if pos >= stream.len() {
        final_checks(cx, holder, model);
        return;
    }
    let r = stream[pos].clone();
    let (suite, sk, cur_sig, cur_vec) = { let m = model.borrow(); (m.suite, m.sk.clone(), m.epochs.last().unwrap().1.clone(), m.epochs.last().unwrap().0.clone()) };
    let (r2, sk2, sig2) = (r.clone(), sk.clone(), cur_sig.clone());
    cx.step(issuer, "update_signature", StepOpts::default(), move || api::update(suite, &sk2, &sig2, &r2.old, &r2.new, r2.index, l), move |cx, st| {
        cx.eval(&[b"update", &cur_sig, &r.old, &r.new, &(r.index as u64).to_le_bytes()], true);
        let out = match &st.out { Ok(x) => x.clone(), Err(c) => { cx.violation("C12", "update_signature/crash".into(), format!("request {} index={} L={l}: {c:?}", r.tag, r.index)); apply_next(cx, issuer, holder, model, stream, pos + 1, l); return; } };
        if r.index >= l {
            cx.count("verdict.out-of-range");
            if out.is_ok() { cx.violation("C12", "update_signature/out-of-range-accepted".into(), format!("request {} with index {} >= L={l} returned a signature", r.tag, r.index)); }
            apply_next(cx, issuer, holder, model, stream, pos + 1, l);
            return;
        }
        let Ok(new_sig) = out else { cx.violation("C12", "update_signature/in-range-refused".into(), format!("request {} index={} L={l}: {out:?}", r.tag, r.index)); apply_next(cx, issuer, holder, model, stream, pos + 1, l); return; };
        let mut intended = cur_vec.clone();
        intended[r.index] = r.new.clone();
        let old_correct = cur_vec[r.index] == r.old;
        cx.count(if old_correct { "verdict.correct-old" } else { "verdict.wrong-old" });
        // holder-side verification of the reply against the intended vector of this epoch
        let (pk, header) = { let m = model.borrow(); (m.pk.clone(), m.header.clone()) };
        let (ns, iv, pk2, hd2) = (new_sig.clone(), intended.clone(), pk.clone(), header.clone());
        let model2 = model.clone();
        cx.step(holder, "verify-reply", StepOpts::default(), move || api::verify(suite, &pk2, &ns, &hd2, &Some(iv)).accepted(), move |cx, st| {
            let ok = matches!(st.out, Ok(true));
            cx.eval(&[b"verify-reply", &new_sig], true);
            if old_correct {
                if !ok { cx.violation("C12", "updated-signature-does-not-verify".into(), format!("request {} index={} of L={l}", r.tag, r.index)); }
                // same exponent, and A equals what the key holder would compute for the vector
                let mut m = model2.borrow_mut();
                if new_sig[48..] != m.e[..] { cx.violation("C12", "exponent-changed".into(), format!("request {}", r.tag)); }
                let skk = rm::octets_to_scalar(&m.sk).unwrap();
                let e = rm::octets_to_scalar(&m.e).unwrap();
                let api = rm::api_id(suite, false);
                let gens = rm::create_generators(suite, l + 1, &api).unwrap();
                let pk96: [u8; 96] = m.pk.as_slice().try_into().unwrap();
                let dom = rm::calculate_domain(suite, &pk96, &gens[0], &gens[1..], m.header.as_deref().unwrap_or(&[]), &api).unwrap();
                let ms = rm::messages_to_scalars(suite, &intended, &api).unwrap();
                let a = rm::b_value(suite, &dom, &gens, &ms) * (skk + e).invert().unwrap();
                use group::Curve;
                if a.to_affine().to_compressed()[..] != new_sig[..48] { cx.violation("C12", "A-differs-from-fresh-signature-with-same-e".into(), format!("request {} index={} of L={l}", r.tag, r.index)); }
                m.epochs.push((intended.clone(), new_sig.clone()));
            } else {
                // wrong old value (alteration, reordering or the same update applied twice)
                if ok && intended != cur_vec { cx.violation("C12", "wrong-old-value-yields-valid-signature".into(), format!("request {} index={} of L={l}", r.tag, r.index)); }
                // the issuer's state moves on with whatever it produced; the model records the
                // signature but no vector it is valid for
            }
        });
        apply_next(cx, issuer, holder, model, stream, pos + 1, l);
    });
}

/// stale replay: every epoch's signature against every other epoch's distinct vector
fn final_checks(cx: &mut Cx, holder: NodeId, model: Rc<RefCell<Model>>) {
    let m = model.borrow();
    let n = m.epochs.len();
    cx.add("n.epochs", n as u64);
    let pairs: Vec<(usize, usize)> = (0..n).flat_map(|i| (0..n).map(move |j| (i, j))).collect();
    let cap = if cx.thorough { 200 } else { 40 };
    for (t, (i, j)) in pairs.into_iter().enumerate() {
        if t >= cap { break; }
        let same = m.epochs[i].0 == m.epochs[j].0;
        let (suite, pk, hd, sig, vec) = (m.suite, m.pk.clone(), m.header.clone(), m.epochs[i].1.clone(), m.epochs[j].0.clone());
        let sig2 = sig.clone();
        cx.step(holder, "replay_stale", StepOpts::default(), move || api::verify(suite, &pk, &sig2, &hd, &Some(vec)).accepted(), move |cx, st| {
            let ok = matches!(st.out, Ok(true));
            cx.eval(&[b"stale", &sig, &(i as u64).to_le_bytes(), &(j as u64).to_le_bytes()], true);
            cx.count(if same { "fault.none" } else { "fault.replay_stale" });
            cx.count(&format!("verdict.{}.{}", if same { "MustAccept" } else { "MustReject" }, if ok { "accept" } else { "reject" }));
            if same && !ok { cx.violation("C12", "current-signature-rejected".into(), format!("epoch {i} signature against its own vector (epoch {j})")); }
            if !same && ok { cx.violation("C12", "stale-signature-accepted".into(), format!("epoch {i} signature verifies for the different vector of epoch {j}")); }
        });
    }
}
