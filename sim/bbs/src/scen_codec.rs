//! C09: encodings are canonical and strict.  (a) durable round trips across a node restart
//! in every codec the API offers; (b) the fault neighbourhood of every honest encoding:
//! whatever a decoder accepts must re-encode to exactly the delivered octets; (c) the
//! forbidden classes must be refused.
use crate::api::{self, Art, Bytes, Suite};
use crate::scen_robust::{make_honest, Honest};
use bls12_381_plus::{G1Affine, G2Affine};
use std::sync::Arc;
use zksim_core::prng::Xo;
use zksim_core::sim::{Crash, Cx, NodeId, StepOpts};

fn honest_of(h: &Honest, art: Art) -> Bytes {
    match art { Art::Pk => h.pk.clone(), Art::Sk => h.sk.clone(), Art::Sig => h.sig.clone(), Art::BlindSig => h.bsig.clone(), Art::Proof => h.proof.clone(), Art::Zkpok => h.cwp[48..].to_vec(), Art::Commitment => h.cwp.clone(), Art::BlindFactor => h.blind.clone() }
}

#[derive(Clone, Copy, PartialEq, Eq, Debug)]
enum Slot { G1(usize, bool /*identity forbidden*/), G2(usize), Scalar(usize, bool /*zero forbidden*/) }

fn slots(art: Art, len: usize) -> Vec<Slot> {
    let sc = |from: usize| (from..len).step_by(32).filter(move |o| o + 32 <= len).map(|o| Slot::Scalar(o, false));
    match art {
        Art::Pk => vec![Slot::G2(0)],
        Art::Sk | Art::BlindFactor => vec![Slot::Scalar(0, false)],
        Art::Sig | Art::BlindSig => vec![Slot::G1(0, true), Slot::Scalar(48, true)],
        Art::Proof => [Slot::G1(0, true), Slot::G1(48, true), Slot::G1(96, true)].into_iter().chain(sc(144)).collect(),
        Art::Zkpok => sc(0).collect(),
        Art::Commitment => std::iter::once(Slot::G1(0, false)).chain(sc(48)).collect(),
    }
}

const R_BE: [u8; 32] = [0x73, 0xed, 0xa7, 0x53, 0x29, 0x9d, 0x7d, 0x48, 0x33, 0x39, 0xd8, 0x08, 0x09, 0xa1, 0xd8, 0x05, 0x53, 0xbd, 0xa4, 0x02, 0xff, 0xfe, 0x5b, 0xfe, 0xff, 0xff, 0xff, 0xff, 0x00, 0x00, 0x00, 0x01];

fn add_be(a: &[u8], b: &[u8]) -> Option<Vec<u8>> {
    let mut o = vec![0u8; a.len()];
    let mut c = 0u16;
    for i in (0..a.len()).rev() { let s = a[i] as u16 + b[i] as u16 + c; o[i] = s as u8; c = s >> 8; }
    if c != 0 { None } else { Some(o) }
}

/// first x (as a small integer) whose compressed encoding is on the curve but outside the
/// prime-order subgroup, and first x that is off the curve
fn g1_patterns() -> (Vec<u8>, Vec<u8>) {
    let (mut nonsub, mut off) = (None, None);
    for x in 1u8..=250 {
        let mut b = [0u8; 48];
        b[0] = 0x80; b[47] = x;
        match Option::<G1Affine>::from(G1Affine::from_compressed_unchecked(&b)) {
            Some(p) => { if nonsub.is_none() && !bool::from(p.is_torsion_free()) { nonsub = Some(b.to_vec()); } }
            None => { if off.is_none() { off = Some(b.to_vec()); } }
        }
        if nonsub.is_some() && off.is_some() { break; }
    }
    (nonsub.expect("non-subgroup G1 x"), off.expect("off-curve G1 x"))
}
fn g2_patterns() -> (Vec<u8>, Vec<u8>) {
    let (mut nonsub, mut off) = (None, None);
    for x in 1u8..=250 {
        let mut b = [0u8; 96];
        b[0] = 0x80; b[95] = x;
        match Option::<G2Affine>::from(G2Affine::from_compressed_unchecked(&b)) {
            Some(p) => { if nonsub.is_none() && !bool::from(p.is_torsion_free()) { nonsub = Some(b.to_vec()); } }
            None => { if off.is_none() { off = Some(b.to_vec()); } }
        }
        if nonsub.is_some() && off.is_some() { break; }
    }
    (nonsub.expect("non-subgroup G2 x"), off.expect("off-curve G2 x"))
}

/// (class name, forbidden?, replacement octets for the slot)
fn substitutions(slot: Slot, cur: &[u8]) -> Vec<(&'static str, bool, Vec<u8>)> {
    let mut v = Vec::new();
    match slot {
        Slot::Scalar(_, zero_forbidden) => {
            if let Some(x) = add_be(cur, &R_BE) { v.push(("scalar+r", true, x.clone())); if let Some(y) = add_be(&x, &R_BE) { v.push(("scalar+2r", true, y)); } }
            v.push(("scalar=r", true, R_BE.to_vec()));
            v.push(("scalar=2^256-1", true, vec![0xff; 32]));
            let mut rm1 = R_BE.to_vec(); rm1[31] = 0; v.push(("scalar=r-1", false, rm1));
            v.push(("scalar=0", zero_forbidden, vec![0; 32]));
        }
        Slot::G1(_, id_forbidden) => {
            let (nonsub, off) = g1_patterns();
            let mut id = vec![0u8; 48]; id[0] = 0xc0;
            v.push(("identity", id_forbidden, id.clone()));
            let mut x = id.clone(); x[0] = 0xe0; v.push(("identity+sortflag", true, x));
            let mut x = id.clone(); x[47] = 1; v.push(("infinityflag+nonzero-x", true, x));
            let mut x = cur.to_vec(); x[0] &= 0x7f; v.push(("compression-flag-cleared", true, x));
            let mut x = cur.to_vec(); x[0] |= 0x40; v.push(("infinity-flag-set-on-point", true, x));
            v.push(("non-subgroup-point", true, nonsub));
            v.push(("off-curve-x", true, off));
            let mut x = vec![0xffu8; 48]; x[0] = 0x9f; v.push(("x>=p", true, x));
            let mut x = cur.to_vec(); x[0] ^= 0x20; v.push(("sort-flag-flipped(-P)", false, x));
        }
        Slot::G2(_) => {
            let (nonsub, off) = g2_patterns();
            let mut id = vec![0u8; 96]; id[0] = 0xc0;
            v.push(("identity", true, id.clone()));
            let mut x = id.clone(); x[0] = 0xe0; v.push(("identity+sortflag", true, x));
            let mut x = id.clone(); x[95] = 1; v.push(("infinityflag+nonzero-x", true, x));
            let mut x = cur.to_vec(); x[0] &= 0x7f; v.push(("compression-flag-cleared", true, x));
            let mut x = cur.to_vec(); x[0] |= 0x40; v.push(("infinity-flag-set-on-point", true, x));
            v.push(("non-subgroup-point", true, nonsub));
            v.push(("off-curve-x", true, off));
            let mut x = vec![0xffu8; 96]; x[0] = 0x9f; v.push(("x>=p", true, x));
            let mut x = cur.to_vec(); x[0] ^= 0x20; v.push(("sort-flag-flipped(-P)", false, x));
        }
    }
    v
}

#[allow(clippy::too_many_arguments)]
fn probe(cx: &mut Cx, victim: NodeId, suite: Suite, art: Art, frame: Bytes, class: String, forbidden: bool) {
    if let Some(n) = art.fixed_len() { if frame.len() != n { cx.count("n.boundary_rejections_not_counted"); return; } }
    let Some(item) = cx.item() else { return };
    let f2 = frame.clone();
    cx.step(victim, "decode", StepOpts::default(), move || api::decode_reencode(suite, art, &f2), move |cx, st| {
        cx.cur_item = Some(item);
        cx.eval(&[art.name().as_bytes(), &frame], true);
        cx.count(&format!("fault.{}", class.split(':').next().unwrap_or("x")));
        match &st.out {
            Err(Crash::Panic(m)) => { cx.count("verdict.crash"); let m = m.clone(); cx.log(format!("note: {}::from_bytes panicked on {class}: {m} (C08's business)", art.name())); }
            Err(_) => {}
            Ok(Err(_)) => { cx.count("verdict.rejected"); }
            Ok(Ok(re)) => {
                cx.count("verdict.accepted");
                cx.cell(format!("{}|{}|accepted", art.name(), class));
                if re != &frame {
                    cx.violation("C09", format!("{}::from_bytes/accepted-non-canonical/{}", art.name(), class.split(':').next().unwrap_or("x")), format!("{class}: delivered {} ({} octets) decodes, but re-encodes to {} ({} octets)", hex::encode(&frame), frame.len(), hex::encode(re), re.len()));
                } else if forbidden {
                    cx.violation("C09", format!("{}::from_bytes/forbidden-accepted/{}", art.name(), class.split(':').next().unwrap_or("x")), format!("{class}: {} decodes", hex::encode(&frame)));
                }
            }
        }
        cx.cur_item = None;
    });
}

/// is an octet string of this length outside every admissible length of the type?
fn wrong_length(art: Art, n: usize) -> bool {
    match art {
        Art::Pk => n != 96,
        Art::Sk | Art::BlindFactor => n != 32,
        Art::Sig | Art::BlindSig => n != 80,
        Art::Proof => n < 272 || (n - 272) % 32 != 0,
        Art::Zkpok => n < 64 || (n - 64) % 32 != 0,
        Art::Commitment => n < 112 || (n - 112) % 32 != 0,
    }
}

/// One run per batch: GRIND for honest points at the edge of the coordinate range.  Four threads
/// walk k*G until they meet a point of G1 whose x-coordinate starts with the three leading octets
/// of the field modulus (1a 01 11: about one point in 1.9 million); such a point is as valid as any
/// other and every decoder must accept its encoding (as the A of a signature, as a commitment).
fn coordinate_edge(cx: &mut Cx) {
    use bls12_381_plus::{G1Affine, G1Projective, Scalar};
    use group::Curve;
    let per_thread: u64 = if cx.thorough { 3_000_000 } else { 900_000 };
    let nodes: Vec<zksim_core::sim::NodeId> = (0..4).map(|i| cx.node(&format!("grinder{i}"))).collect();
    let steps: Vec<(zksim_core::sim::NodeId, Box<dyn FnOnce() -> Option<[u8; 48]> + Send>)> = nodes.iter().enumerate().map(|(i, &n)| {
        let f: Box<dyn FnOnce() -> Option<[u8; 48]> + Send> = Box::new(move || {
            let g = G1Projective::GENERATOR;
            let mut p = g * Scalar::from(1_000_003u64 + i as u64 * 5_000_011);
            let mut buf = vec![G1Projective::IDENTITY; 2048];
            let mut aff = vec![G1Affine::identity(); 2048];
            let mut done = 0u64;
            while done < per_thread {
                for slot in buf.iter_mut() { *slot = p; p += g; }
                G1Projective::batch_normalize(&buf, &mut aff);
                for a in &aff { let c = a.to_compressed(); if c[0] & 0x1f == 0x1a && c[1] == 0x01 && c[2] == 0x11 { return Some(c); } }
                done += 2048;
            }
            None
        });
        (n, f)
    }).collect();
    let victim = cx.node("victim");
    let suite = Suite::from_idx(cx.run_index);
    cx.burst(steps, "walk k*G", move |cx, outs| {
        cx.add("n.points_walked", 4 * per_thread);
        let found: Vec<[u8; 48]> = outs.into_iter().filter_map(|st| st.out.ok().flatten()).collect();
        if found.is_empty() { cx.count("probe.coordinate_edge_grind_gave_up"); return; }
        for c in found {
            cx.count("probe.honest_point_with_x_just_below_the_field_modulus");
            for art in [Art::Sig, Art::Commitment] {
                let bytes: Bytes = match art { Art::Sig => { let mut b = c.to_vec(); b.extend_from_slice(&[0u8; 31]); b.push(1); b } _ => { let mut b = c.to_vec(); b.extend_from_slice(&[0u8; 31]); b.push(1); b.extend_from_slice(&[0u8; 31]); b.push(2); b } };
                let b2 = bytes.clone();
                cx.step(victim, "decode-edge-point", StepOpts::default(), move || api::decode_reencode(suite, art, &b2), move |cx, st| {
                    cx.eval(&[b"edge-point", art.name().as_bytes(), &bytes], true);
                    match st.out { Ok(Ok(r)) if r == bytes => cx.count("verdict.MustAccept.accept"), other => cx.violation("C09", format!("{}/rejected_valid_encoding/x-coordinate-just-below-p", art.name()), format!("{} -> {other:?}", hex::encode(&bytes[..48]))) }
                });
            }
        }
    });
    cx.run();
}

pub fn run_c09(cx: &mut Cx) {
    // (run 48 of every 49: the 48 runs before it enumerate the type x part x suite space)
    if cx.run_index % 49 == 48 { return coordinate_edge(cx); }
    let ri = cx.run_index - cx.run_index / 49;
    let victim = cx.node("victim");
    let suite = Suite::from_idx(ri);
    let l = 2 + cx.ch.choose("honest_L", 4) as usize;
    // (a commitment to no message at all -- an empty response list -- is an artefact too)
    let m = cx.ch.choose("honest_M", 4) as usize;
    let seed = cx.run_seed;
    cx.step(victim, "honest-session", StepOpts::default(), move || make_honest(suite, seed, l, m), move |cx, st| {
        let h = match st.out { Ok(Ok(h)) => Arc::new(h), other => { cx.log(format!("honest session failed: {:?}", other.err())); return; } };
        let part = cx.ch.forced("space_part", 24, ri / 2);
        let art = Art::ALL[(part % 8) as usize];
        let b = honest_of(&h, art);
        match part / 8 {
            0 => {
                roundtrips(cx, victim, &h, art);
                // extension by 1..=64 octets (three content classes), truncation to every length
                for k in 1..=64usize {
                    for cls in 0..3u8 {
                        let mut f = b.clone();
                        let mut ext = vec![0u8; k];
                        match cls { 0 => {} 1 => Xo::new(cx.run_seed, &[b"ext", &[k as u8]]).fill(&mut ext), _ => { Xo::new(cx.run_seed, &[b"ext2", &[k as u8]]).fill(&mut ext); for c in ext.chunks_mut(32) { c[0] &= 0x3f; } } }
                        f.extend_from_slice(&ext);
                        let wl = wrong_length(art, f.len());
                        probe(cx, victim, suite, art, f, format!("extend:+{k}/{}", ["zeros", "prng", "scalars"][cls as usize]), wl);
                    }
                }
                // the same in FRONT: zero octets (a left-padded integer export) and other octets prepended
                for k in [1usize, 2, 16, 32, 48] {
                    for cls in 0..2u8 {
                        let mut f = vec![0u8; k];
                        if cls == 1 { Xo::new(cx.run_seed, &[b"pre", &[k as u8]]).fill(&mut f); }
                        f.extend_from_slice(&b);
                        let wl = wrong_length(art, f.len());
                        probe(cx, victim, suite, art, f, format!("prepend:+{k}/{}", ["zeros", "prng"][cls as usize]), wl);
                    }
                }
                for n in 0..b.len() { probe(cx, victim, suite, art, b[..n].to_vec(), format!("truncate:{n}"), wrong_length(art, n)); }
                // signatures also enter the library as octet SLICES (proof_gen, blind_proof_gen take
                // &[u8]): the decoder behind those entry points refuses every other length too
                if art == Art::Sig || art == Art::BlindSig {
                    for (name, f) in [("+1 zero", [b.clone(), vec![0]].concat()), ("+1 prng", [b.clone(), vec![0xa7]].concat()), ("+32", [b.clone(), vec![0; 32]].concat()), ("+80 (twice)", [b.clone(), b.clone()].concat()), ("-1", b[..b.len() - 1].to_vec()), ("-32", b[..b.len() - 32].to_vec())] {
                        let h2 = h.clone();
                        let blind = art == Art::BlindSig;
                        let f2 = f.clone();
                        cx.step(victim, "signature-slice-entry-point", StepOpts::default(), move || {
                            let msgs = Some(h2.msgs.clone());
                            if blind { api::blind_proof_gen(suite, &h2.pk, &f2, &h2.header, &h2.ph, &msgs, &Some(h2.committed.clone()), &Some(h2.didx.clone()), &Some(h2.dcidx.clone()), &Some(h2.blind.clone())).is_ok() }
                            else { api::proof_gen(suite, &h2.pk, &f2, &h2.header, &h2.ph, &msgs, &Some(h2.didx.clone())).is_ok() }
                        }, move |cx, st| {
                            cx.eval(&[b"sig-slice", name.as_bytes(), &f], true);
                            cx.count("fault.wrong_length_through_a_slice_entry_point");
                            if let Ok(true) = st.out { cx.violation("C09", format!("{}/accepted_wrong_length/through-{}", art.name(), if blind { "blind_proof_gen" } else { "proof_gen" }), format!("signature octets {name} ({} octets) were accepted", f.len())); }
                        });
                    }
                }
            }
            1 => {
                for bit in 0..b.len() * 8 { let mut f = b.clone(); f[bit / 8] ^= 0x80 >> (bit % 8); probe(cx, victim, suite, art, f, format!("bitflip:{bit}"), false); }
            }
            _ => {
                for slot in slots(art, b.len()) {
                    let (off, n) = match slot { Slot::G1(o, _) => (o, 48), Slot::G2(o) => (o, 96), Slot::Scalar(o, _) => (o, 32) };
                    for (name, forbidden, rep) in substitutions(slot, &b[off..off + n]) {
                        let mut f = b.clone();
                        f[off..off + n].copy_from_slice(&rep);
                        probe(cx, victim, suite, art, f, format!("{name}:@{off}"), forbidden);
                    }
                }
                // TWO points of a proof moved off the prime-order subgroup by opposite small-order
                // components (P + T, Q - T with T of order 3): each point alone is outside G1, their
                // sum is not -- a decoder that tests membership of a combination accepts the pair
                if art == Art::Proof {
                    use bls12_381_plus::{G1Affine, G1Projective};
                    use group::Curve;
                    let t3 = crate::scen_proof::small_order_point();
                    let dec = |o: &[u8]| -> Option<G1Projective> { let a: [u8; 48] = o.try_into().ok()?; Option::<G1Affine>::from(G1Affine::from_compressed(&a)).map(G1Projective::from) };
                    for (i, j) in [(0usize, 48usize), (0, 96), (48, 96)] {
                        if let (Some(p), Some(q)) = (dec(&b[i..i + 48]), dec(&b[j..j + 48])) {
                            let mut f = b.clone();
                            f[i..i + 48].copy_from_slice(&(p + t3).to_affine().to_compressed());
                            f[j..j + 48].copy_from_slice(&(q - t3).to_affine().to_compressed());
                            probe(cx, victim, suite, art, f, format!("two-points-off-subgroup-cancelling:@{i}+@{j}"), true);
                        }
                    }
                }
                // the same substitutions through the serde decoder (it bypasses from_bytes)
                if art != Art::BlindFactor {
                    let (b1, h1) = (b.clone(), h.clone());
                    cx.step(victim, "to_json", StepOpts::default(), move || api::to_json(suite, art, &b1), move |cx, st| {
                        let Ok(Ok(text)) = st.out else { return };
                        let b = honest_of(&h1, art);
                        for slot in slots(art, b.len()) {
                            let (off, n) = match slot { Slot::G1(o, _) => (o, 48), Slot::G2(o) => (o, 96), Slot::Scalar(o, _) => (o, 32) };
                            let honest_hex = hex::encode(&b[off..off + n]);
                            if text.matches(&honest_hex).count() != 1 { continue; }
                            for (name, forbidden, rep) in substitutions(slot, &b[off..off + n]) {
                                let Some(item) = cx.item() else { continue };
                                let mut expect = b.clone();
                                expect[off..off + n].copy_from_slice(&rep);
                                let t2 = text.replace(&honest_hex, &hex::encode(&rep));
                                let t3 = t2.clone();
                                cx.step(victim, "json-decode", StepOpts::default(), move || api::from_json(suite, art, &t3), move |cx, st| {
                                    cx.cur_item = Some(item);
                                    cx.eval(&[b"json-subst", art.name().as_bytes(), t2.as_bytes()], true);
                                    cx.count(&format!("fault.json:{name}"));
                                    match &st.out {
                                        Ok(Ok(re)) => {
                                            cx.count("verdict.accepted");
                                            if re != &expect { cx.violation("C09", format!("serde::{}/accepted-non-canonical/{name}", art.name()), format!("{name}@{off}: the JSON form decodes, but re-encodes to other octets")); }
                                            else if forbidden { cx.violation("C09", format!("serde::{}/forbidden-accepted/{name}", art.name()), format!("{name}@{off}: {t2} decodes")); }
                                        }
                                        Ok(Err(_)) => cx.count("verdict.rejected"),
                                        Err(_) => cx.count("verdict.crash"),
                                    }
                                    cx.cur_item = None;
                                });
                            }
                        }
                    });
                }
            }
        }
    });
    cx.run();
}

/// write every codec's form to the store, crash, reload on the new incarnation, compare
fn roundtrips(cx: &mut Cx, victim: NodeId, h: &Arc<Honest>, art: Art) {
    let suite = h.suite;
    let b = honest_of(h, art);
    // octets
    let (b1, b2) = (b.clone(), b.clone());
    cx.restart(victim);
    cx.step(victim, "reload-octets", StepOpts::default(), move || api::decode_reencode(suite, art, &b1), move |cx, st| {
        cx.eval(&[b"rt-octets", art.name().as_bytes(), &b2], true);
        cx.count("fault.restart_reload_octets");
        match st.out { Ok(Ok(x)) if x == b2 => {} other => cx.violation("C09", format!("{}/roundtrip/octets", art.name()), format!("{} -> {other:?}", hex::encode(&b2))) }
    });
    // JSON: serialize on one incarnation, deserialize on the next
    if art != Art::BlindFactor {
        let (b1, b2) = (b.clone(), b.clone());
        cx.step(victim, "store-json", StepOpts::default(), move || api::to_json(suite, art, &b1), move |cx, st| {
            let text = match st.out { Ok(Ok(t)) => t, other => { cx.violation("C09", format!("{}/roundtrip/json-encode", art.name()), format!("{other:?}")); return; } };
            cx.restart(victim);
            let t2 = text.clone();
            cx.step(victim, "reload-json", StepOpts::default(), move || api::from_json(suite, art, &t2), move |cx, st| {
                cx.eval(&[b"rt-json", art.name().as_bytes(), &b2], true);
                cx.count("fault.restart_reload_json");
                match st.out { Ok(Ok(x)) if x == b2 => {} other => cx.violation("C09", format!("{}/roundtrip/json", art.name()), format!("{text} -> {other:?}")) }
            });
        });
    }
    if art == Art::Commitment || art == Art::Zkpok {
        // the same artefact over NO committed message (an empty response list) through every codec
        cx.step(victim, "commitment-to-nothing-roundtrips", StepOpts::default(), move || {
            let (cwp, _) = api::commit(suite, &Some(vec![]))?;
            let b: Bytes = if art == Art::Zkpok { cwp[48..].to_vec() } else { cwp };
            let j = api::to_json(suite, art, &b)?;
            let back = api::from_json(suite, art, &j).map_err(|e| format!("JSON {j} does not decode: {e}"))?;
            let oct = api::decode_reencode(suite, art, &b)?;
            Ok::<_, String>(back == b && oct == b)
        }, move |cx, st| {
            cx.eval(&[b"commit-to-nothing", art.name().as_bytes()], true);
            match st.out { Ok(Ok(true)) => {} other => cx.violation("C09", format!("{}/roundtrip/over-no-committed-message", art.name()), format!("{other:?}")) }
        });
    }
    if art == Art::Pk {
        // the key store on disk: the library's own writer, a path with a HISTORY (nothing there / a
        // longer older document / a shorter one / another key pair written just before), a crash
        // of the role, and the reload of whatever the file then holds
        // several roles storing different key pairs into the same directory at the same time
        {
            let nodes: Vec<zksim_core::sim::NodeId> = (0..4).map(|i| cx.node(&format!("store{i}"))).collect();
            let tag = format!("{}-{}", std::process::id(), cx.run_index);
            let seed = cx.run_seed;
            let steps: Vec<(zksim_core::sim::NodeId, Box<dyn FnOnce() -> Vec<String> + Send>)> = nodes.iter().enumerate().map(|(i, &nd)| {
                let path = std::env::temp_dir().join(format!("zksim-bbs-keystore-burst-{tag}-{i}.json")).to_string_lossy().to_string();
                let f: Box<dyn FnOnce() -> Vec<String> + Send> = Box::new(move || {
                    let mut bad = Vec::new();
                    for r in 0..60u64 {
                        let ikm = zksim_core::prng::bytes_for(seed, b"store-burst", i as u64 * 1000 + r, 32);
                        let wrote = std::panic::catch_unwind(std::panic::AssertUnwindSafe(|| api::keypair_to_file(suite, &ikm, &path)));
                        match (wrote, api::keypair_from_file(suite, &path)) {
                            (Ok(Ok(w)), Ok(b)) if w == b => {}
                            (Err(_), _) => bad.push(format!("round {r}: the write panicked")),
                            (w, b) => bad.push(format!("round {r}: wrote {:?}, read back {:?}", w.ok().map(|x| x.map(|k| hex::encode(&k.1[..6]))), b.map(|k| hex::encode(&k.1[..6])))),
                        }
                    }
                    let _ = std::fs::remove_file(&path);
                    bad
                });
                (nd, f)
            }).collect();
            cx.burst(steps, "write key files concurrently", move |cx, outs| {
                for (i, st) in outs.into_iter().enumerate() {
                    cx.eval(&[b"key-file-burst", &[i as u8], tag.as_bytes()], true);
                    cx.count("fault.concurrent_calls");
                    if !matches!(&st.out, Ok(b) if b.is_empty()) { cx.violation("C09", "store/concurrent-writers-disturb-each-other".into(), format!("role {i} of 4 writing its own key file 60 times: {:?}", st.out.map(|b| b.into_iter().take(3).collect::<Vec<_>>()))); }
                }
            });
        }
        for history in 0..4u64 {
        let path = std::env::temp_dir().join(format!("zksim-bbs-keystore-{}-{}-{}-{history}.json", std::process::id(), cx.run_index, cx.run_seed & 0xffff)).to_string_lossy().to_string();
        cx.count(&format!("fault.store_file_history_{}", ["fresh_path", "longer_older_document", "shorter_older_document", "rotation_after_another_key"][history as usize]));
        let ikm = zksim_core::prng::bytes_for(cx.run_seed, b"store-ikm", 0, 32);
        let (p1, p2, path2) = (path.clone(), path.clone(), path.clone());
        cx.step(victim, "write-key-file", StepOpts::default(), move || {
            match history {
                0 => { let _ = std::fs::remove_file(&p1); }
                1 => std::fs::write(&p1, format!("{{\n  \"public\": \"{}\",\n  \"private\": \"{}\"\n}}\n\n{{\"stale\": true}}\n", "ab".repeat(96), "cd".repeat(32))).map_err(|e| e.to_string())?,
                2 => std::fs::write(&p1, "{}").map_err(|e| e.to_string())?,
                _ => { api::keypair_to_file(suite, &[ikm.clone(), vec![9]].concat(), &p1)?; use std::io::Write; std::fs::OpenOptions::new().append(true).open(&p1).and_then(|mut f| f.write_all(b"\n\n")).map_err(|e| e.to_string())?; }
            }
            api::keypair_to_file(suite, &ikm, &p1)
        }, move |cx, st| {
            let (sk, pk) = match st.out { Ok(Ok(t)) => t, other => { cx.violation("C09", "store/key-file-write-failed".into(), format!("{other:?}")); let _ = std::fs::remove_file(&path2); return; } };
            cx.restart(victim);
            cx.step(victim, "reload-key-file", StepOpts::default(), move || { let r = api::keypair_from_file(suite, &p2); let _ = std::fs::remove_file(&p2); r }, move |cx, st| {
                cx.eval(&[b"key-file", &pk, &[history as u8]], true);
                cx.count("fault.restart_reload_from_file");
                match st.out {
                    Ok(Ok((a, b))) if a == sk && b == pk => {}
                    other => cx.violation("C09", "store/key-file-does-not-read-back".into(), format!("file history {history}: {:?}", other.map(|r| r.map(|_| "another key")))),
                }
            });
        });
        }
        let (b1, b2) = (b.clone(), b.clone());
        cx.step(victim, "store-coordinates", StepOpts::default(), move || api::pk_to_coordinates(&b1), move |cx, st| {
            let (x, y) = match st.out { Ok(Ok(t)) => t, other => { cx.violation("C09", "PublicKey/roundtrip/coordinates-encode".into(), format!("{other:?}")); return; } };
            cx.restart(victim);
            let (x2, y2) = (x.clone(), y.clone());
            cx.step(victim, "reload-coordinates", StepOpts::default(), move || { let xa: [u8; 96] = x2.as_slice().try_into().unwrap(); let ya: [u8; 96] = y2.as_slice().try_into().unwrap(); api::pk_from_coordinates(&xa, &ya) }, move |cx, st| {
                cx.eval(&[b"rt-coord", &b2], true);
                cx.count("fault.restart_reload_coordinates");
                match st.out { Ok(Ok(p)) if p == b2 => {} other => cx.violation("C09", "PublicKey/roundtrip/coordinates".into(), format!("{other:?}")) }
            });
            // the coordinate form is not an encoding the octet decoder knows: x || y (192 octets) fed
            // to from_bytes is a wrong length
            {
                let xy = [x.clone(), y.clone()].concat();
                let xy2 = xy.clone();
                cx.step(victim, "decode-foreign-encoding", StepOpts::default(), move || api::decode_reencode(suite, Art::Pk, &xy2), move |cx, st| {
                    cx.eval(&[b"pk-xy-into-from_bytes", &xy], true);
                    cx.count("fault.foreign_encoding_of_the_same_object");
                    if let Ok(Ok(r)) = st.out { cx.violation("C09", "PublicKey/accepted_foreign_encoding/uncompressed-into-from_bytes".into(), format!("from_bytes accepted the 192-octet x || y form (re-encodes to {} octets)", r.len())); }
                });
            }
            // forbidden coordinates: on the curve but outside the prime-order subgroup; off the
            // curve; the point at infinity
            {
                use bls12_381_plus::G2Affine;
                let mut cands: Vec<(&'static str, Vec<u8>)> = Vec::new();
                for k in 1u8..=60 {
                    let mut c = [0u8; 96]; c[0] = 0x80; c[95] = k;
                    if let Some(p) = Option::<G2Affine>::from(G2Affine::from_compressed_unchecked(&c)) {
                        if bool::from(p.is_torsion_free()) { continue; }
                        cands.push(("outside-the-subgroup", p.to_uncompressed().to_vec()));
                        break;
                    }
                }
                { let mut off = [x.clone(), y.clone()].concat(); off[191] ^= 1; cands.push(("off-the-curve", off)); }
                { let mut inf = vec![0u8; 192]; inf[0] = 0x40; cands.push(("infinity", inf)); }
                for (name, xy) in cands {
                    let xy2 = xy.clone();
                    cx.step(victim, "reload-forbidden-coordinates", StepOpts::default(), move || { let xa: [u8; 96] = xy2[..96].try_into().unwrap(); let ya: [u8; 96] = xy2[96..].try_into().unwrap(); api::pk_from_coordinates(&xa, &ya) }, move |cx, st| {
                        cx.eval(&[b"pk-forbidden-coordinates", name.as_bytes(), &xy], true);
                        cx.count("fault.forbidden_coordinates");
                        if let Ok(Ok(_)) = st.out { cx.violation("C09", format!("PublicKey/from_coordinates/forbidden_accepted/{name}"), format!("coordinates of a point {name} decode to a public key")); }
                    });
                }
            }
            // coordinate-level strictness: a flipped bit in y must not yield the same key
            for bit in [0usize, 7, 95 * 8 + 7] {
                let (mut x3, mut y3) = (x.clone(), y.clone());
                if bit == 0 { x3[0] ^= 0x80; } else { y3[bit / 8] ^= 0x80 >> (bit % 8); }
                let b3 = b.clone();
                cx.step(victim, "reload-coordinates-flipped", StepOpts::default(), move || { let xa: [u8; 96] = x3.as_slice().try_into().unwrap(); let ya: [u8; 96] = y3.as_slice().try_into().unwrap(); api::pk_from_coordinates(&xa, &ya) }, move |cx, st| {
                    cx.eval(&[b"rt-coord-flip", &b3, &[bit as u8]], true);
                    if let Ok(Ok(p)) = st.out { if p == b3 { cx.violation("C09", "PublicKey/from_coordinates/accepted-non-canonical".into(), format!("coordinates with bit {bit} flipped decode to the same key")); } }
                });
            }
        });
    }
}
