//! C08: a maximally faulty channel feeding every BBS handler.  Torn / short / garbage
//! frames of every length, corrupted integers and index lists.  Observation: the node must
//! return (Ok or Err); a panic, an arithmetic overflow, a work-budget trip (ticks counted by
//! the guarded hook) or an allocation-budget trip is "a peer crashed this node with one frame".
use crate::api::{self, Art, Bytes, Opt, OptIdx, OptList, Suite};
use crate::common::*;
use std::sync::Arc;
use zksim_core::prng::{bytes_for, Xo};
use zksim_core::sim::{Crash, Cx, NodeId, Step, StepOpts};
use zksim_core::wire::int_corruptions;

pub struct Honest {
    pub suite: Suite,
    pub sk: Bytes,
    pub pk: Bytes,
    pub header: Opt,
    pub ph: Opt,
    pub msgs: Vec<Bytes>,
    pub committed: Vec<Bytes>,
    pub sig: Bytes,
    pub proof: Bytes,
    pub didx: Vec<usize>,
    pub cwp: Bytes,
    pub blind: Bytes,
    pub bsig: Bytes,
    pub bproof: Bytes,
    pub dcidx: Vec<usize>,
}

pub fn make_honest(suite: Suite, seed: u64, l: usize, m: usize) -> Result<Honest, String> {
    make_honest_with(suite, seed, l, m, 2, 2)
}

/// `hk`, `pk_`: 0 = absent, 1 = empty, 2 = bytes (header / presentation header)
pub fn make_honest_with(suite: Suite, seed: u64, l: usize, m: usize, hk: u64, pk_: u64) -> Result<Honest, String> {
    let (sk, pk) = api::keygen(suite, &bytes_for(seed, b"ikm", 0, 40), None, None)?;
    let header = match hk { 0 => None, 1 => Some(vec![]), _ => Some(bytes_for(seed, b"hdr", 0, 7)) };
    let ph = match pk_ { 0 => None, 1 => Some(vec![]), _ => Some(bytes_for(seed, b"ph", 0, 9)) };
    let msgs: Vec<Bytes> = (0..l).map(|i| bytes_for(seed, b"m", i as u64, 5 + i)).collect();
    let committed: Vec<Bytes> = (0..m).map(|i| bytes_for(seed, b"cm", i as u64, 6 + i)).collect();
    let sig = api::sign(suite, &sk, &pk, &header, &Some(msgs.clone()))?;
    let didx: Vec<usize> = (0..l).filter(|i| i % 2 == 0).collect();
    let proof = api::proof_gen(suite, &pk, &sig, &header, &ph, &Some(msgs.clone()), &Some(didx.clone()))?;
    let (cwp, blind) = api::commit(suite, &Some(committed.clone()))?;
    let bsig = api::blind_sign(suite, &sk, &pk, &Some(cwp.clone()), &header, &Some(msgs.clone()))?;
    let dcidx: Vec<usize> = (0..m).filter(|i| i % 2 == 1).collect();
    let bproof = api::blind_proof_gen(suite, &pk, &bsig, &header, &ph, &Some(msgs.clone()), &Some(committed.clone()), &Some(didx.clone()), &Some(dcidx.clone()), &Some(blind.clone()))?;
    Ok(Honest { suite, sk, pk, header, ph, msgs, committed, sig, proof, didx, cwp, blind, bsig, bproof, dcidx })
}

/// entry points that take an untrusted octet string
#[derive(Clone, Copy, Debug, PartialEq, Eq)]
pub enum BE { PkFromBytes, SkFromBytes, ProofFromBytes, ZkpokFromBytes, CommitmentFromBytes, BlindSign, ValidateCommit, ProofGenSig, BlindProofGenSig, ProofVerify, BlindProofVerify, VerifyPk, SigContent, BlindFactorContent, BlindSigContent }
pub const BYTE_ENTRIES: [BE; 15] = [BE::PkFromBytes, BE::SkFromBytes, BE::ProofFromBytes, BE::ZkpokFromBytes, BE::CommitmentFromBytes, BE::BlindSign, BE::ValidateCommit, BE::ProofGenSig, BE::BlindProofGenSig, BE::ProofVerify, BE::BlindProofVerify, BE::VerifyPk, BE::SigContent, BE::BlindFactorContent, BE::BlindSigContent];

impl BE {
    pub fn name(self) -> &'static str {
        match self {
            BE::PkFromBytes => "PublicKey::from_bytes", BE::SkFromBytes => "SecretKey::from_bytes", BE::ProofFromBytes => "PoKSignature::from_bytes", BE::ZkpokFromBytes => "ZKPoK::from_bytes",
            BE::CommitmentFromBytes => "Commitment::from_bytes", BE::BlindSign => "blind_sign", BE::ValidateCommit => "deserialize_and_validate_commit", BE::ProofGenSig => "proof_gen", BE::BlindProofGenSig => "blind_proof_gen",
            BE::ProofVerify => "proof_verify", BE::BlindProofVerify => "blind_proof_verify", BE::VerifyPk => "verify", BE::SigContent => "Signature::from_bytes+verify", BE::BlindFactorContent => "BlindFactor::from_bytes+verify_blind_sign", BE::BlindSigContent => "BlindSignature::from_bytes+verify_blind_sign",
        }
    }
    /// the honest encoding this entry point normally receives
    pub fn honest<'a>(self, h: &'a Honest) -> &'a [u8] {
        match self {
            BE::PkFromBytes | BE::VerifyPk => &h.pk, BE::SkFromBytes => &h.sk, BE::ProofFromBytes | BE::ProofVerify => &h.proof, BE::ZkpokFromBytes => &h.cwp[48..],
            BE::CommitmentFromBytes | BE::BlindSign | BE::ValidateCommit => &h.cwp, BE::ProofGenSig | BE::SigContent => &h.sig, BE::BlindProofGenSig | BE::BlindSigContent => &h.bsig, BE::BlindProofVerify => &h.bproof, BE::BlindFactorContent => &h.blind,
        }
    }
    /// Some(n): only this length reaches the library (fixed-size array parameter)
    pub fn fixed(self) -> Option<usize> {
        match self { BE::SigContent | BE::BlindSigContent => Some(80), BE::BlindFactorContent => Some(32), _ => None }
    }
    /// trusted counts (the caller's own data) that legitimately contribute to the work
    pub fn trusted(self, h: &Honest) -> u64 {
        (match self {
            BE::BlindSign | BE::ProofGenSig | BE::VerifyPk | BE::SigContent => h.msgs.len(),
            BE::BlindProofGenSig | BE::BlindFactorContent | BE::BlindSigContent => h.msgs.len() + h.committed.len(),
            BE::ProofVerify => h.didx.len(),
            BE::BlindProofVerify => h.didx.len() + h.dcidx.len() + h.msgs.len(),
            BE::ValidateCommit => 8,
            _ => 0,
        }) as u64
    }
    pub fn call(self, h: &Honest, b: &[u8]) -> Result<(), String> {
        let s = h.suite;
        let some = |v: &Vec<Bytes>| Some(v.clone());
        let dm: Vec<Bytes> = h.didx.iter().map(|&i| h.msgs[i].clone()).collect();
        let dcm: Vec<Bytes> = h.dcidx.iter().map(|&i| h.committed[i].clone()).collect();
        match self {
            BE::PkFromBytes => api::decode_reencode(s, Art::Pk, b).map(|_| ()),
            BE::SkFromBytes => api::decode_reencode(s, Art::Sk, b).map(|_| ()),
            BE::ProofFromBytes => api::decode_reencode(s, Art::Proof, b).map(|_| ()),
            BE::ZkpokFromBytes => api::decode_reencode(s, Art::Zkpok, b).map(|_| ()),
            BE::CommitmentFromBytes => api::decode_reencode(s, Art::Commitment, b).map(|_| ()),
            BE::BlindSign => api::blind_sign(s, &h.sk, &h.pk, &Some(b.to_vec()), &h.header, &some(&h.msgs)).map(|_| ()),
            // (with 8 blind generators, or exactly / just above / below what the frame's length asks for: picked by the content)
            BE::ValidateCommit => { let m = b.len().saturating_sub(112) / 32; let sel = (b.iter().map(|x| *x as usize).sum::<usize>() + b.len()) % 6; let n = [8usize, m, m + 1, m + 2, 0, m.saturating_sub(1)][sel]; api::validate_commit(s, &Some(b.to_vec()), n); Ok(()) }
            BE::ProofGenSig => api::proof_gen(s, &h.pk, b, &h.header, &h.ph, &some(&h.msgs), &Some(h.didx.clone())).map(|_| ()),
            BE::BlindProofGenSig => api::blind_proof_gen(s, &h.pk, b, &h.header, &h.ph, &some(&h.msgs), &some(&h.committed), &Some(h.didx.clone()), &Some(h.dcidx.clone()), &Some(h.blind.clone())).map(|_| ()),
            BE::ProofVerify => { api::proof_verify(s, &h.pk, b, &h.header, &h.ph, &Some(dm), &Some(h.didx.clone())); Ok(()) }
            BE::BlindProofVerify => { api::blind_proof_verify(s, &h.pk, b, &h.header, &h.ph, Some(h.msgs.len()), &Some(dm), &Some(dcm), &Some(h.didx.clone()), &Some(h.dcidx.clone())); Ok(()) }
            BE::VerifyPk => { api::verify(s, b, &h.sig, &h.header, &some(&h.msgs)); Ok(()) }
            BE::SigContent => { api::verify(s, &h.pk, b, &h.header, &some(&h.msgs)); Ok(()) }
            BE::BlindSigContent => { api::verify_blind(s, &h.pk, b, &h.header, &some(&h.msgs), &some(&h.committed), &Some(h.blind.clone())); Ok(()) }
            BE::BlindFactorContent => { api::verify_blind(s, &h.pk, &h.bsig, &h.header, &some(&h.msgs), &some(&h.committed), &Some(b.to_vec())); Ok(()) }
        }
    }
}

pub const CLASSES: [&str; 7] = ["honest", "honest-bitflip", "zeros", "ones", "identity-pattern", "prng", "honest-scalars-maxed"];

/// a 1024-octet tape for (entry, class); the frame of length n is its prefix
pub fn tape(cx_seed: u64, honest: &[u8], class: usize, salt: u64) -> Vec<u8> {
    let mut t = vec![0u8; 1024];
    match class {
        0 | 1 | 6 => {
            let n = honest.len().min(1024);
            t[..n].copy_from_slice(&honest[..n]);
            // beyond the honest length: more scalar-looking material (valid scalars), so that
            // whole-scalar extension is reached as well as garbage extension
            let mut x = Xo::new(cx_seed, &[b"tape-ext", &salt.to_le_bytes()]);
            x.fill(&mut t[n..]);
            for c in t[n..].chunks_mut(32) { c[0] &= 0x3f; }
            if class == 1 { let bit = (Xo::new(cx_seed, &[b"tape-flip", &salt.to_le_bytes()]).below((n.max(1) * 8) as u64)) as usize; t[bit / 8] ^= 0x80 >> (bit % 8); }
            if class == 6 { for c in t[n.min(48)..].chunks_mut(32) { for b in c.iter_mut() { *b = 0xff; } } }
        }
        2 => {}
        3 => { for b in t.iter_mut() { *b = 0xff; } }
        4 => { for c in t.chunks_mut(48) { c[0] = 0xc0; } }
        _ => { Xo::new(cx_seed, &[b"tape-prng", &salt.to_le_bytes()]).fill(&mut t); }
    }
    t
}

fn budget_for(measure: u64) -> u64 { 64 + 4 * measure }
fn alloc_budget_for(measure: u64) -> u64 { (1 << 20) + 16384 * measure }

fn settle_c08<T: std::fmt::Debug>(cx: &mut Cx, entry: &str, class: &str, input_desc: String, measure: u64, st: &Step<T>) {
    cx.count(&format!("verdict.{}", match &st.out { Ok(_) => "returned", Err(Crash::Panic(_)) => "panic", Err(Crash::Budget(..)) => "work-budget" }));
    cx.cell(format!("{entry}|{class}|{}", match &st.out { Ok(_) => "returned", Err(_) => "crash" }));
    // calibration data for the evidence: worst observed ratio to the budget (per mille)
    let tr = st.ticks * 1000 / budget_for(measure);
    let ar = st.alloc_bytes * 1000 / alloc_budget_for(measure);
    let e = cx.counters.entry("n.max_tick_permille_of_budget".into()).or_insert(0); if tr > *e { *e = tr; }
    let e = cx.counters.entry("n.max_alloc_permille_of_budget".into()).or_insert(0); if ar > *e { *e = ar; }
    match &st.out {
        Err(Crash::Panic(m)) => cx.violation("C08", format!("{entry}/panic"), format!("class={class} {input_desc}: panicked: {m}")),
        Err(Crash::Budget(t, site)) => cx.violation("C08", format!("{entry}/work-budget"), format!("class={class} {input_desc}: {t} ticks in {site} exceed the budget {} for input measure {measure}", budget_for(measure))),
        Ok(_) => {
            if st.alloc_bytes > alloc_budget_for(measure) || st.alloc_max > alloc_budget_for(measure) {
                cx.violation("C08", format!("{entry}/alloc-budget"), format!("class={class} {input_desc}: {} bytes requested (largest single request {}) exceed the budget {} for input measure {measure}", st.alloc_bytes, st.alloc_max, alloc_budget_for(measure)));
            }
        }
    }
}

pub fn run_c08(cx: &mut Cx) {
    let victim = cx.node("victim");
    let suite = Suite::from_idx(cx.run_index / 2);
    let l = 3 + (cx.ch.choose("honest_L", 3) as usize);
    let m = 2 + (cx.ch.choose("honest_M", 2) as usize);
    let seed = cx.run_seed;
    cx.step(victim, "honest-session", StepOpts::default(), move || make_honest(suite, seed, l, m), move |cx, st| {
        let h = match st.out { Ok(Ok(h)) => Arc::new(h), other => { cx.log(format!("honest session failed: {:?} (C01/C03/C05's business)", other.err())); return; } };
        // which part of the finite space this run enumerates: run index -> (entry, class), all lengths
        let n_byte = (BYTE_ENTRIES.len() * CLASSES.len()) as u64;
        let n_json = (JSON_ARTS.len() * 3) as u64;
        let n_int = 6u64;
        let part = cx.ch.forced("space_part", n_byte + n_json + n_int, cx.run_index);
        if part < n_byte {
            byte_part(cx, victim, h, (part as usize) / CLASSES.len(), (part as usize) % CLASSES.len());
        } else if part < n_byte + n_json {
            let p = (part - n_byte) as usize;
            json_part(cx, victim, h, p / 3, p % 3);
        } else {
            int_part(cx, victim, h, (part - n_byte - n_json) as usize);
        }
    });
    cx.run();
}

fn byte_part(cx: &mut Cx, victim: NodeId, h: Arc<Honest>, ei: usize, class: usize) {
    let be = BYTE_ENTRIES[ei];
    let t = Arc::new(tape(cx.run_seed, be.honest(&h), class, ei as u64));
    let lens: Vec<usize> = match be.fixed() { Some(n) => vec![n], None => (0..=1024).collect() };
    cx.log(format!("enumerating {} x {} x {} lengths", be.name(), CLASSES[class], lens.len()));
    // fixed-size parameters: the content classes are spread over more patterns instead of lengths
    let variants: u64 = if be.fixed().is_some() { 64 } else { 1 };
    for var in 0..variants {
        for &n in &lens {
            let Some(item) = cx.item() else { continue };
            let (h2, t2, h3) = (h.clone(), t.clone(), h.clone());
            let measure = (n as u64 + 31) / 32 + be.trusted(&h);
            let opts = StepOpts { tick_budget: budget_for(measure), ..Default::default() };
            let seed = cx.run_seed;
            cx.step(victim, be.name(), opts, move || {
                let mut frame = t2[..n].to_vec();
                if var > 0 { let bit = Xo::new(seed, &[b"var", &var.to_le_bytes()]).below((n * 8) as u64) as usize; frame[bit / 8] ^= 0x80 >> (bit % 8); }
                be.call(&h2, &frame).is_ok()
            }, move |cx, st| {
                cx.cur_item = Some(item);
                cx.eval(&[be.name().as_bytes(), &[class as u8], &(n as u64).to_le_bytes(), &var.to_le_bytes()], true);
                if class == 0 && n > be.honest(&h3).len() { cx.count("probe.honest_extended_reached"); }
                if class == 0 && n < be.honest(&h3).len() { cx.count("probe.honest_truncated_reached"); }
                settle_c08(cx, be.name(), CLASSES[class], format!("len={n} var={var}"), measure, &st);
                cx.cur_item = None;
            });
        }
    }
}

pub const JSON_ARTS: [Art; 6] = [Art::Pk, Art::Sk, Art::Sig, Art::Proof, Art::Zkpok, Art::Commitment];

fn json_part(cx: &mut Cx, victim: NodeId, h: Arc<Honest>, ai: usize, kind: usize) {
    let art = JSON_ARTS[ai];
    let honest: Bytes = match art { Art::Pk => h.pk.clone(), Art::Sk => h.sk.clone(), Art::Sig => h.sig.clone(), Art::Proof => h.proof.clone(), Art::Zkpok => h.cwp[48..].to_vec(), _ => h.cwp.clone() };
    let suite = h.suite;
    cx.step(victim, "to_json", StepOpts::default(), move || api::to_json(suite, art, &honest), move |cx, st| {
        let Ok(Ok(text)) = st.out else { cx.log("to_json failed (C09's business)".into()); return; };
        let mut frames: Vec<(String, String)> = Vec::new();
        match kind {
            0 => { for n in 0..=text.len() { if text.is_char_boundary(n) { frames.push((format!("truncated@{n}"), text[..n].to_string())); } } }
            1 => {
                // wrong types: every string / number / array leaf replaced
                // (strings of every length some codec of the library knows -- 32-octet scalars, 48 / 96
                //  octet compressed and 96 / 192 octet uncompressed points, in hex -- that are not hex:
                //  a decoder that dispatches on the length must still fail cleanly)
                let odd_strings: Vec<(String, String)> = [64usize, 96, 192, 384].iter().flat_map(|&n| [
                    (format!("nonhex_tail{n}"), format!("\"{}z\"", "a".repeat(n - 1))),
                    (format!("nonhex_head{n}"), format!("\"g{}\"", "0".repeat(n - 1))),
                    (format!("utf8_{n}"), format!("\"{}\"", "\u{e9}".repeat(n / 2))),
                    (format!("upperhex{n}"), format!("\"{}\"", "AB".repeat(n / 2))),
                    // one multi-octet character at octet offset 1 / 2 / 3 of an otherwise plausible hex
                    // text (a decoder that cuts a prefix off at a byte offset: "0x", a sign, a radix tag)
                    (format!("utf8_at_offset1_{n}"), format!("\"0\u{e9}{}\"", "a".repeat(n))),
                    (format!("utf8_at_offset2_{n}"), format!("\"0x\u{20ac}{}\"", "a".repeat(n))),
                    (format!("utf8_at_offset3_{n}"), format!("\"-0x\u{e9}{}\"", "a".repeat(n))),
                ]).collect();
                // the externally tagged enums: every variant name the generic types declare, with
                // the honest payload and with null
                let payload = text.find(':').map(|p| text[p + 1..text.len() - 1].to_string()).unwrap_or_default();
                for variant in ["BBSplus", "CL03", "_Unreachable", "Unknown", ""] {
                    frames.push((format!("variant:{variant}:null"), format!("{{\"{variant}\":null}}")));
                    frames.push((format!("variant:{variant}:payload"), format!("{{\"{variant}\":{payload}}}")));
                    frames.push((format!("variant:{variant}:[]"), format!("{{\"{variant}\":[]}}")));
                }
                frames.push(("variant:bare-string".into(), "\"_Unreachable\"".into()));
                let fixed: Vec<(String, String)> = [("null", "null"), ("int", "7"), ("neg", "-1"), ("float", "1e400"), ("emptystr", "\"\""), ("nonhex", "\"zz\""), ("oddhex", "\"abc\""), ("arr", "[]"), ("obj", "{}"), ("bool", "true"), ("deep", "[[[[[[[[[[[[[[[[[[[[[[[[[[[[[[[[]]]]]]]]]]]]]]]]]]]]]]]]]]]]]]]]")].iter().map(|(a, b)| (a.to_string(), b.to_string())).collect();
                for (k, rep) in fixed.iter().chain(odd_strings.iter()).map(|(a, b)| (a.as_str(), b.as_str())) {
                    let mut start = 0;
                    while let Some(p) = text[start..].find('"') {
                        let a = start + p;
                        let Some(q) = text[a + 1..].find('"') else { break };
                        let b = a + 1 + q + 1;
                        // only value strings (followed by , ] or }) -- keys are followed by ':'
                        if text[b..].starts_with(':') { start = b; continue; }
                        frames.push((format!("{k}@{a}"), format!("{}{}{}", &text[..a], rep, &text[b..])));
                        start = b;
                    }
                }
            }
            _ => {
                // huge arrays / strings
                for n in [1usize, 100, 10_000, 200_000] {
                    let big_arr = format!("[{}]", vec!["\"00\""; n].join(","));
                    let big_str = format!("\"{}\"", "ab".repeat(n));
                    frames.push((format!("hugearr{n}"), text.replacen("[", &format!("[{},", &big_arr[1..big_arr.len() - 1]), 1)));
                    if let Some(p) = text.find(":\"") { frames.push((format!("hugestr{n}"), format!("{}:{}{}", &text[..p], big_str, &text[p + 2 + text[p + 2..].find('"').unwrap_or(0) + 1..]))); }
                    frames.push((format!("onlyarr{n}"), big_arr));
                }
            }
        }
        cx.log(format!("enumerating JSON {} kind {kind}: {} frames", art.name(), frames.len()));
        for (desc, fr) in frames {
            let Some(item) = cx.item() else { continue };
            let measure = (fr.len() as u64 + 31) / 32;
            let opts = StepOpts { tick_budget: budget_for(measure), ..Default::default() };
            let entry = format!("serde_json::{}", art.name());
            let fr2 = fr.clone();
            let h3 = h.clone();
            // decode, re-encode, and (for a presentation) hand the decoded object to the verifier
            cx.step(victim, "json_decode", opts, move || { let ok = api::from_json(suite, art, &fr2).is_ok(); if art == Art::Proof { let dm: Vec<Bytes> = h3.didx.iter().map(|&i| h3.msgs[i].clone()).collect(); let _ = api::proof_verify_json(suite, &h3.pk, &fr2, &h3.header, &h3.ph, &Some(dm), &Some(h3.didx.clone())); } ok }, move |cx, st| {
                cx.cur_item = Some(item);
                cx.eval(&[entry.as_bytes(), fr.as_bytes()], true);
                settle_c08(cx, &entry, "json", format!("{desc} ({} chars)", fr.len()), measure, &st);
                cx.cur_item = None;
            });
        }
    });
}

/// corrupted integers and index lists
fn int_part(cx: &mut Cx, victim: NodeId, h: Arc<Honest>, which: usize) {
    let s = h.suite;
    let l = h.msgs.len();
    let m = h.committed.len();
    let dm: Vec<Bytes> = h.didx.iter().map(|&i| h.msgs[i].clone()).collect();
    let dcm: Vec<Bytes> = h.dcidx.iter().map(|&i| h.committed[i].clone()).collect();
    // index-list shapes
    let mut lists: Vec<(String, Vec<usize>)> = vec![("empty".into(), vec![]), ("dup".into(), vec![0, 0]), ("unsorted".into(), vec![2, 0]), ("longer-than-msgs".into(), (0..l + m + 5).collect()), ("all-max".into(), vec![usize::MAX; 3]), ("many-dups".into(), vec![1; 64])];
    for pos in 0..h.didx.len() { for c in int_corruptions(h.didx[pos], l) { let mut v = h.didx.clone(); v[pos] = c; lists.push((format!("didx[{pos}]={c}"), v)); } }
    let lvals: Vec<Option<usize>> = std::iter::once(None).chain(int_corruptions(l, l).into_iter().map(Some)).chain([Some(l + m), Some(l + m + 1), Some(l + m + 2)]).collect();
    let mut add = |cx: &mut Cx, entry: &'static str, desc: String, entries: u64, job: Box<dyn FnOnce() -> bool + Send>| {
        let Some(item) = cx.item() else { return };
        let measure = entries + (l + m) as u64 + 16;
        let opts = StepOpts { tick_budget: budget_for(measure), ..Default::default() };
        cx.step(victim, entry, opts, job, move |cx, st| {
            cx.cur_item = Some(item);
            cx.eval(&[entry.as_bytes(), desc.as_bytes()], true);
            settle_c08(cx, entry, "int", desc.clone(), measure, &st);
            cx.cur_item = None;
        });
    };
    match which {
        0 => for (d, v) in lists.clone() {
            let (h2, dm2, n) = (h.clone(), dm.clone(), v.len() as u64);
            add(cx, "proof_verify", format!("disclosed_indexes {d}"), n, Box::new(move || api::proof_verify(s, &h2.pk, &h2.proof, &h2.header, &h2.ph, &Some(dm2), &Some(v)).accepted()));
            let (h2, n) = (h.clone(), lists.len() as u64);
            let _ = n;
            let v2: Vec<Bytes> = vec![];
            let (d2, vv) = (d.clone(), lists.iter().find(|x| x.0 == d).unwrap().1.clone());
            add(cx, "proof_verify", format!("disclosed_indexes {d2} with no messages"), vv.len() as u64, Box::new(move || api::proof_verify(s, &h2.pk, &h2.proof, &h2.header, &h2.ph, &Some(v2), &Some(vv)).accepted()));
        },
        1 => for lv in lvals.clone() {
            let (h2, dm2, dcm2) = (h.clone(), dm.clone(), dcm.clone());
            add(cx, "blind_proof_verify", format!("L={lv:?}"), (h.didx.len() + h.dcidx.len()) as u64, Box::new(move || api::blind_proof_verify(s, &h2.pk, &h2.bproof, &h2.header, &h2.ph, lv, &Some(dm2), &Some(dcm2), &Some(h2.didx.clone()), &Some(h2.dcidx.clone())).accepted()));
            let h2 = h.clone();
            add(cx, "blind_proof_verify", format!("L={lv:?} nothing disclosed"), 0, Box::new(move || api::blind_proof_verify(s, &h2.pk, &h2.bproof, &h2.header, &h2.ph, lv, &None, &None, &None, &None).accepted()));
        },
        2 => for (d, v) in lists.clone() {
            let (h2, dm2, dcm2, v2) = (h.clone(), dm.clone(), dcm.clone(), v.clone());
            add(cx, "blind_proof_verify", format!("disclosed_indexes {d}"), v.len() as u64, Box::new(move || api::blind_proof_verify(s, &h2.pk, &h2.bproof, &h2.header, &h2.ph, Some(h2.msgs.len()), &Some(dm2), &Some(dcm2), &Some(v2), &Some(h2.dcidx.clone())).accepted()));
            let (h2, dm2, dcm2, v2) = (h.clone(), dm.clone(), dcm.clone(), v.clone());
            add(cx, "blind_proof_verify", format!("disclosed_commitment_indexes {d}"), v.len() as u64, Box::new(move || api::blind_proof_verify(s, &h2.pk, &h2.bproof, &h2.header, &h2.ph, Some(h2.msgs.len()), &Some(dm2), &Some(dcm2), &Some(h2.didx.clone()), &Some(v2)).accepted()));
            // the same lists with L ABSENT (a verifier that derives L from what it is given)
            let (h2, dm2, dcm2, v2) = (h.clone(), dm.clone(), dcm.clone(), v.clone());
            add(cx, "blind_proof_verify", format!("disclosed_indexes {d}, L absent"), v.len() as u64, Box::new(move || api::blind_proof_verify(s, &h2.pk, &h2.bproof, &h2.header, &h2.ph, None, &Some(dm2), &Some(dcm2), &Some(v2), &Some(h2.dcidx.clone())).accepted()));
            let (h2, dm2, dcm2, v2) = (h.clone(), dm.clone(), dcm.clone(), v.clone());
            add(cx, "blind_proof_verify", format!("disclosed_commitment_indexes {d}, L absent"), v.len() as u64, Box::new(move || api::blind_proof_verify(s, &h2.pk, &h2.bproof, &h2.header, &h2.ph, None, &Some(dm2), &Some(dcm2), &Some(h2.didx.clone()), &Some(v2)).accepted()));
        },
        3 => for (d, v) in lists.clone() {
            let (h2, v2) = (h.clone(), v.clone());
            add(cx, "proof_gen", format!("disclosed_indexes {d}"), v.len() as u64, Box::new(move || api::proof_gen(s, &h2.pk, &h2.sig, &h2.header, &h2.ph, &Some(h2.msgs.clone()), &Some(v2)).is_ok()));
            let (h2, v2) = (h.clone(), v.clone());
            add(cx, "blind_proof_gen", format!("disclosed_indexes {d}"), v.len() as u64, Box::new(move || api::blind_proof_gen(s, &h2.pk, &h2.bsig, &h2.header, &h2.ph, &Some(h2.msgs.clone()), &Some(h2.committed.clone()), &Some(v2), &Some(h2.dcidx.clone()), &Some(h2.blind.clone())).is_ok()));
            let (h2, v2) = (h.clone(), v.clone());
            add(cx, "blind_proof_gen", format!("disclosed_commitment_indexes {d}"), v.len() as u64, Box::new(move || api::blind_proof_gen(s, &h2.pk, &h2.bsig, &h2.header, &h2.ph, &Some(h2.msgs.clone()), &Some(h2.committed.clone()), &Some(h2.didx.clone()), &Some(v2), &Some(h2.blind.clone())).is_ok()));
        },
        4 => for c in int_corruptions(0, l).into_iter().chain([l + 1, l + 2]) {
            let h2 = h.clone();
            add(cx, "update_signature", format!("update_index={c}"), 0, Box::new(move || api::update(s, &h2.sk, &h2.sig, &h2.msgs[0], b"new", c, h2.msgs.len()).is_ok()));
            // ... an old signature whose e is -SK (the issuer knows SK; SK + e = 0 has no inverse)
            if c == 1 {
                let h2 = h.clone();
                add(cx, "update_signature", "old signature with e = -SK".into(), 0, Box::new(move || {
                    let mut sig = h2.sig.clone();
                    if let Ok(sk) = crate::refmodel::octets_to_scalar(&h2.sk) { sig[48..80].copy_from_slice(&(-sk).to_be_bytes()); }
                    api::update(s, &h2.sk, &sig, &h2.msgs[0], b"new", 0, h2.msgs.len()).is_ok()
                }));
            }
            // ... and the message count n (small values and the top of the range; the work is
            // proportional to n, so the values in between are left to the size sweeps)
            if c <= l + 2 || c >= usize::MAX - 1 {
                let h2 = h.clone();
                add(cx, "update_signature", format!("n={c}"), c.min(64) as u64, Box::new(move || api::update(s, &h2.sk, &h2.sig, &h2.msgs[0], b"new", 0, c).is_ok()));
                // (index n - 1 for the huge counts would derive 2^64 generators: work proportional to the index, not exercised)
                if c == usize::MAX - 1 { continue; }
                let h2 = h.clone();
                add(cx, "update_signature", format!("n={c},update_index=n-1"), c.min(64) as u64, Box::new(move || api::update(s, &h2.sk, &h2.sig, &h2.msgs[0], b"new", c.wrapping_sub(1), c).is_ok()));
            }
        },
        _ => {
            // message / committed-message lists that do not match the signature (more, fewer, none)
            for k in [0usize, 1, l + 1, l + 40] {
                let h2 = h.clone();
                let msgs: OptList = Some((0..k).map(|i| vec![i as u8]).collect());
                let msgs2 = msgs.clone();
                add(cx, "verify", format!("{k} messages"), k as u64, Box::new(move || api::verify(s, &h2.pk, &h2.sig, &h2.header, &msgs2).accepted()));
                let h2 = h.clone();
                add(cx, "verify_blind_sign", format!("{k} committed messages"), k as u64, Box::new(move || api::verify_blind(s, &h2.pk, &h2.bsig, &h2.header, &Some(h2.msgs.clone()), &msgs, &Some(h2.blind.clone())).accepted()));
            }
            let _: OptIdx = None;
        }
    }
}
