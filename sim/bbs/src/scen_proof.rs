//! C03 (proof completeness: every disclosure choice, production randomness through the
//! entropy seam, restarts, preemption) and C04 (proof soundness: wire corruption of the
//! Presentation frame and Mallory's forged frames) on Issuer -> Holder -> Verifier.
use crate::api::{self, Bytes, Opt, OptIdx, OptList, Suite};
use crate::common::*;
use crate::refmodel as rm;
use bls12_381_plus::{G1Projective, Scalar};
use ff::Field;
use group::Group;
use std::cell::RefCell;
use std::collections::BTreeMap;
use std::rc::Rc;
use zksim_core::prng::{bytes_for, Xo};
use zksim_core::sim::{Cx, NodeId, StepOpts};
use zksim_core::wire::{flip, int_corruptions, ListFault, OctFault};

#[derive(Clone, Debug)]
pub struct Presentation {
    pub suite: Suite,
    pub pk: Bytes,
    pub proof: Bytes,
    pub header: Opt,
    pub ph: Opt,
    pub dmsgs: OptList,
    pub didx: OptIdx,
    /// deliver through the serde view of the proof instead of from_bytes
    pub json: Option<String>,
    /// deliver to the blind endpoint (with this L) instead of the plain one
    pub blind_l: Option<Option<usize>>,
}

type Shared = Rc<RefCell<Ideal>>;
#[derive(Clone, Copy, PartialEq, Eq)]
enum Mode { Complete, Sound }

pub fn run_c03(cx: &mut Cx) { run(cx, Mode::Complete) }
pub fn run_c04(cx: &mut Cx) { run(cx, Mode::Sound) }

fn run(cx: &mut Cx, mode: Mode) {
    cx.preemptions_left = cx.ch.choose("preemptions", 5) as u32;
    let ideal: Shared = Rc::new(RefCell::new(Ideal::default()));
    let holder = cx.node("holder");
    let verifier = cx.node("verifier");
    // each session has its own issuer node; holder and verifier serve all sessions of the run, so
    // that whatever they did for one session (other L, other suite, other header) precedes the next
    let n = if mode == Mode::Complete { 1 + cx.ch.choose("sessions", 3) } else { 2 };
    for s in 0..n {
        let issuer = cx.node(&format!("issuer{s}"));
        // in the soundness check session 0 is an honest warm-up of the same nodes
        let m = if mode == Mode::Sound && s == 0 { Mode::Complete } else { mode };
        session(cx, m, s, issuer, holder, verifier, ideal.clone());
    }
    cx.run();
    if mode == Mode::Complete && cx.ch.chance("concurrent_burst", 1, 8) { crate::scen_burst::proof_burst(cx, false); }
    if mode == Mode::Complete { crate::scen_sweep::proof(cx); }
    if mode == Mode::Complete && cx.run_index % 4 == 1 { crate::scen_sweep::proof_shape(cx); }
    if mode == Mode::Complete && cx.run_index % 100 == 50 { crate::scen_sweep::draw_counts(cx); }
    if mode == Mode::Complete && cx.run_index % 100 == 51 { crate::scen_sweep::bigproof(cx); }
}

pub fn gen_disclosure(cx: &mut Cx, l: usize, salt: u64) -> Vec<usize> {
    if l == 0 { return vec![]; }
    if l <= 6 {
        // all 2^L subsets in rotation across runs
        let mask = cx.ch.forced("disclosure_mask", 1 << l, cx.run_index.wrapping_mul(3).wrapping_add(salt));
        (0..l).filter(|i| mask >> i & 1 == 1).collect()
    } else {
        // long credentials are disclosed completely more often: that is the only way a verifier
        // ever handles a long list
        match cx.ch.weighted("disclosure_kind", &if l > 200 { [0, 8, 2] } else if l > 100 { [1, 5, 4] } else { [2, 2, 6] }) {
            0 => vec![],
            1 => (0..l).collect(),
            _ => { let den = 2 + cx.ch.choose("disclosure_density", 4); (0..l).filter(|_| cx.ch.choose("d", den) == 0).collect() }
        }
    }
}

#[allow(clippy::too_many_arguments)]
fn session(cx: &mut Cx, mode: Mode, s: u64, issuer: NodeId, holder: NodeId, verifier: NodeId, ideal: Shared) {
    let suite = gen_suite(cx);
    let (ikm, info) = gen_key_material(cx, s);
    let header = gen_octets(cx, "header", s);
    let ph = gen_octets(cx, "ph", 100 + s);
    let msgs_v = gen_messages(cx, "L", s + 1, mode == Mode::Sound);
    let l = msgs_v.len();
    let d = gen_disclosure(cx, l, s);
    let msgs = as_optlist(cx, msgs_v);
    let didx: OptIdx = if d.is_empty() && cx.ch.chance("didx_absent", 1, 2) { None } else { Some(d.clone()) };
    cx.log(format!("session {s}: suite={} L={l} D={d:?} header={} ph={}", suite.name(), opt_s(&header), opt_s(&ph)));
    cx.cell(format!("shape|{}|{}|U{}|R{}", suite.name(), shape_bucket(l), (l - d.len()).min(3), d.len().min(3)));
    if l - d.len() == 0 { cx.count("probe.U=0"); }
    if d.is_empty() { cx.count("probe.R=0"); }
    if l == 0 { cx.count("probe.L=0"); }
    let (h1, m1) = (header.clone(), msgs.clone());
    cx.step(issuer, "keygen+sign", StepOpts::default(), move || {
        let (sk, pk) = api::keygen(suite, &ikm, info.as_deref(), None)?;
        let sig = api::sign(suite, &sk, &pk, &h1, &m1)?;
        Ok::<_, String>((sk, pk, sig))
    }, move |cx, st| {
        let (_sk, pk, sig) = match st.out { Ok(Ok(x)) => x, other => { cx.log(format!("issuance failed: {other:?} (C01's business)")); return; } };
        // holder crash between receiving the credential and presenting: fresh thread_rng
        if cx.ch.chance("restart_holder_before_present", 1, 4) { cx.restart(holder); cx.count("probe.holder_restart_before_proof_gen"); }
        let opts = StepOpts { eintr: if cx.ch.chance("eintr", 1, 6) { 1 + cx.ch.choose("eintr_n", 3) as i32 } else { 0 }, short_reads: if cx.ch.chance("short_read", 1, 6) { 1 + cx.ch.choose("short_n", 2) as i32 } else { 0 }, ..Default::default() };
        let (pk1, sig1, h1, p1, m1, d1) = (pk.clone(), sig.clone(), header.clone(), ph.clone(), msgs.clone(), didx.clone());
        cx.step(holder, "proof_gen", opts, move || api::proof_gen(suite, &pk1, &sig1, &h1, &p1, &m1, &d1), move |cx, st| {
            if st.ent.2 > 0 { cx.count("probe.EINTR_during_proof_gen"); }
            if st.ent.3 > 0 { cx.count("probe.short_read_during_proof_gen"); }
            if st.ent.1 > 0 { cx.count("probe.proof_gen_drew_fresh_entropy"); }
            let proof = match st.out {
                Ok(Ok(p)) => p,
                other => { cx.violation("C03", "proof_gen/failed".into(), format!("{other:?} suite={} L={l} D={d:?} header={} ph={}", suite.name(), opt_s(&header), opt_s(&ph))); return; }
            };
            let u = l - d.len();
            cx.eval(&[b"proof_len", &proof], true);
            if proof.len() != 272 + 32 * u {
                cx.violation("C03", "proof_gen/length-formula".into(), format!("len={} but U={u}", proof.len()));
            }
            let dm: Vec<Bytes> = d.iter().map(|&i| lnorm(&msgs)[i].clone()).collect();
            ideal.borrow_mut().register_proof(&proof, ProofStmt { suite, blind_iface: false, pk: pk.clone(), header: header.clone().unwrap_or_default(), ph: ph.clone().unwrap_or_default(), disclosed: d.iter().copied().zip(dm.iter().cloned()).collect(), disclosed_committed: BTreeMap::new(), l });
            let dmsgs: OptList = if dm.is_empty() && cx.ch.chance("dmsgs_absent", 1, 2) { None } else { Some(dm) };
            let f = Presentation { suite, pk: pk.clone(), proof, header: header.clone(), ph: ph.clone(), dmsgs, didx: didx.clone(), json: None, blind_l: None };
            match mode {
                Mode::Complete => deliver_neutral(cx, f, verifier, ideal),
                Mode::Sound => deliver_corrupted(cx, s, f, l, issuer, verifier, ideal),
            }
        });
    });
}

pub fn deliver(cx: &mut Cx, verifier: NodeId, f: Presentation, fault: String, ideal: Shared) {
    let Some(item) = cx.item() else { return };
    cx.log(format!("item {item}: deliver {fault}"));
    let f2 = f.clone();
    cx.step(verifier, "proof_verify", StepOpts::default(), move || {
        if let Some(l) = f2.blind_l { return api::blind_proof_verify(f2.suite, &f2.pk, &f2.proof, &f2.header, &f2.ph, l, &f2.dmsgs, &None, &f2.didx, &None); }
        match &f2.json {
            Some(j) => api::proof_verify_json(f2.suite, &f2.pk, j, &f2.header, &f2.ph, &f2.dmsgs, &f2.didx),
            None => api::proof_verify(f2.suite, &f2.pk, &f2.proof, &f2.header, &f2.ph, &f2.dmsgs, &f2.didx),
        }
    }, move |cx, st| {
        cx.cur_item = Some(item);
        let verdict = ideal.borrow().judge_proof(f.suite, f.blind_l.is_some(), &f.pk, &f.proof, &f.header, &f.ph, f.blind_l.flatten(), &f.dmsgs, &f.didx, &None, &None);
        let seen = seen_of(&st.out);
        if fault.starts_with("forged") { cx.log(format!("   {fault} -> {:?}", st.out)); }
        let idxb: Vec<u8> = inorm(&f.didx).iter().flat_map(|i| i.to_le_bytes()).collect();
        cx.eval(&[f.suite.name().as_bytes(), &[f.json.is_some() as u8, f.blind_l.is_some() as u8], &f.pk, &f.proof, zksim_core::wire::norm(&f.header), zksim_core::wire::norm(&f.ph), &lnorm(&f.dmsgs).concat(), &idxb], true);
        let entry = if f.blind_l.is_some() { "blind_proof_verify" } else if f.json.is_some() { "proof_verify(json)" } else { "proof_verify" };
        settle(cx, "C03", "C04", entry, &fault, verdict, &seen, || format!("suite={} pk={} proof={} header={} ph={} disclosed={:?} msgs={}", f.suite.name(), hexs(&f.pk), hex::encode(&f.proof), opt_s(&f.header), opt_s(&f.ph), f.didx, list_s(&f.dmsgs)));
        cx.cur_item = None;
    });
}

fn deliver_neutral(cx: &mut Cx, mut f: Presentation, verifier: NodeId, ideal: Shared) {
    let mut fault = "none".to_string();
    if cx.ch.chance("opt_toggle_header", 1, 3) { OctFault::Toggle.apply(&mut f.header, 0); fault = "opt_toggle".into(); }
    if cx.ch.chance("opt_toggle_ph", 1, 3) { OctFault::Toggle.apply(&mut f.ph, 0); fault = "opt_toggle".into(); }
    if inorm(&f.didx).is_empty() && cx.ch.chance("list_toggle", 1, 2) {
        f.didx = if f.didx.is_none() { Some(vec![]) } else { None };
        f.dmsgs = if f.dmsgs.is_none() { Some(vec![]) } else { None };
        fault = "list_toggle".into();
    }
    if cx.ch.chance("restart_verifier", 1, 5) { cx.restart(verifier); }
    if cx.ch.chance("via_json", 1, 6) {
        f.json = Some(proof_json(&f.proof));
        fault = "json_codec".into();
    }
    // the serde view produced by the library's own Serialize impl (on the verifier's peer), for
    // every proof with nothing hidden and a sample of the others
    let u = (f.proof.len().saturating_sub(272)) / 32;
    if u == 0 || cx.ch.chance("via_library_json", 1, 4) {
        let (suite, pbytes, f2, ideal2) = (f.suite, f.proof.clone(), f.clone(), ideal.clone());
        cx.step(verifier, "serialize-proof", StepOpts::default(), move || api::proof_to_json(suite, &pbytes), move |cx, st| {
            match st.out {
                Ok(Ok(j)) => { let mut g = f2.clone(); g.json = Some(j); deliver(cx, verifier, g, "json_codec_library".into(), ideal2); }
                other => cx.violation("C03", "proof/json-encode-failed".into(), format!("{other:?}")),
            }
        });
    }
    deliver(cx, verifier, f.clone(), fault, ideal.clone());
    if cx.ch.chance("frame_dup", 1, 6) { deliver(cx, verifier, f, "frame_dup".into(), ideal); }
}

/// serde view of a proof, written from its octets without going through the library
pub fn proof_json(p: &[u8]) -> String {
    if p.len() < 272 { return "{}".into(); }
    let hx = |b: &[u8]| hex::encode(b);
    let n = (p.len() - 272) / 32;
    let mcap: Vec<String> = (0..n).map(|k| format!("\"{}\"", hx(&p[240 + 32 * k..272 + 32 * k]))).collect();
    format!("{{\"BBSplus\":{{\"Abar\":\"{}\",\"Bbar\":\"{}\",\"D\":\"{}\",\"e_cap\":\"{}\",\"r1_cap\":\"{}\",\"r3_cap\":\"{}\",\"m_cap\":[{}],\"challenge\":\"{}\"}}}}",
        hx(&p[0..48]), hx(&p[48..96]), hx(&p[96..144]), hx(&p[144..176]), hx(&p[176..208]), hx(&p[208..240]), mcap.join(","), hx(&p[p.len() - 32..]))
}

fn deliver_corrupted(cx: &mut Cx, s: u64, f: Presentation, l: usize, issuer: NodeId, verifier: NodeId, ideal: Shared) {
    deliver(cx, verifier, f.clone(), "none".into(), ideal.clone());
    let u = (f.proof.len() - 272) / 32;
    // (1) bit flips: the 240 fixed octets + challenge (272 octets = 2176 bits) in 16 slices of
    //     136 bits, plus all 256 bits of one undisclosed-message response per run
    let slice = cx.ch.forced("bitflip_slice", 16, cx.run_index) as usize;
    let fixed_bits: Vec<usize> = (0..240 * 8).chain(((f.proof.len() - 32) * 8)..(f.proof.len() * 8)).collect();
    for &bit in &fixed_bits[slice * 136..slice * 136 + 136] {
        let mut g = f.clone();
        flip(&mut g.proof, bit);
        deliver(cx, verifier, g, "proof_bitflip".into(), ideal.clone());
    }
    if u > 0 {
        let k = cx.ch.forced("mcap_slot", u as u64, cx.run_index / 16) as usize;
        for bit in 0..256 {
            let mut g = f.clone();
            flip(&mut g.proof, (240 + 32 * k) * 8 + bit);
            deliver(cx, verifier, g, "proof_bitflip_mcap".into(), ideal.clone());
        }
    }
    // (2) truncation / extension by whole scalars
    for k in 1..=3usize {
        if f.proof.len() >= 32 * k { let mut g = f.clone(); g.proof.truncate(f.proof.len() - 32 * k); deliver(cx, verifier, g, "proof_truncate_scalars".into(), ideal.clone()); }
    }
    for (k, cls) in [(1usize, 0u8), (1, 1), (2, 1), (1, 2)] {
        let mut g = f.clone();
        for j in 0..k {
            let ext: Vec<u8> = match cls { 0 => vec![0u8; 32], 1 => { let mut b = bytes_for(cx.run_seed, b"ext", j as u64, 32); b[0] &= 0x3f; b } _ => f.proof[f.proof.len() - 32..].to_vec() };
            g.proof.extend_from_slice(&ext);
        }
        deliver(cx, verifier, g, "proof_extend_scalars".into(), ideal.clone());
    }
    // splice: insert / remove a response scalar in the middle (U changes)
    if u > 0 { let mut g = f.clone(); g.proof.drain(240..272); deliver(cx, verifier, g, "proof_drop_response".into(), ideal.clone()); }
    { let mut g = f.clone(); let ins = f.proof[144..176].to_vec(); let at = 240; g.proof.splice(at..at, ins); deliver(cx, verifier, g, "proof_insert_response".into(), ideal.clone()); }
    for k in [1usize, 31, 33] { let mut g = f.clone(); g.proof.extend(std::iter::repeat(0u8).take(k)); deliver(cx, verifier, g, format!("proof_followed_by_{k}_octets"), ideal.clone()); }
    // (3) disclosed data: every single-element fault of the message list; index corruption;
    //     consistent edits of (index, message) pairs
    let r = lnorm(&f.dmsgs).len();
    // Mallory: ENCODING CONFUSION -- a disclosed message replaced by an encoding of its own scalar
    if r > 0 {
        let i = (cx.run_index as usize) % r;
        if let Ok(sc) = rm::messages_to_scalars(f.suite, &[lnorm(&f.dmsgs)[i].clone()], &rm::api_id(f.suite, false)) {
            let b = sc[0].to_be_bytes();
            for (name, enc) in [("scalar_octets", b.to_vec()), ("scalar_serde_json", format!("{{\"value\":\"{}\"}}", hex::encode(b)).into_bytes()), ("scalar_hex_text", hex::encode(b).into_bytes())] {
                let mut g = f.clone();
                let mut v = g.dmsgs.take().unwrap_or_default();
                if v[i] == enc { continue; }
                v[i] = enc;
                g.dmsgs = Some(v);
                deliver(cx, verifier, g, format!("forged:disclosed_message_as_{name}"), ideal.clone());
            }
        }
    }
    for lf in ListFault::pick(&mut cx.ch, r, 80, 20) {
        let mut g = f.clone();
        let mut v = g.dmsgs.take().unwrap_or_default();
        lf.apply(&mut v, cx.run_seed);
        g.dmsgs = Some(v);
        deliver(cx, verifier, g, format!("dmsgs_{}", lf.kind()), ideal.clone());
    }
    for pos in (0..r).filter(|&p| r <= 8 || p == 0 || p == r / 2 || p + 1 == r) {
        let honest = inorm(&f.didx)[pos];
        for c in int_corruptions(honest, l) {
            let mut g = f.clone();
            let mut v = g.didx.take().unwrap_or_default();
            v[pos] = c;
            g.didx = Some(v);
            deliver(cx, verifier, g, "didx_int_corrupt".into(), ideal.clone());
        }
    }
    if r >= 2 {
        let (i, j) = (cx.ch.choose("pair_i", r as u64) as usize, cx.ch.choose("pair_j", r as u64) as usize);
        let mut g = f.clone();
        let (mut a, mut b) = (g.didx.take().unwrap(), g.dmsgs.take().unwrap());
        a.swap(i, j); b.swap(i, j);
        g.didx = Some(a); g.dmsgs = Some(b);
        deliver(cx, verifier, g, "pairs_permuted".into(), ideal.clone());
    }
    if r >= 2 {
        // the INDEX list alone in another order, the messages as given: every pair of the two
        // swapped positions is now a false claim (a verifier that sorts the indexes it is given
        // without moving the messages along re-pairs them into the honest statement)
        let (i, j) = (cx.ch.choose("idx_only_i", r as u64) as usize, cx.ch.choose("idx_only_j", r as u64) as usize);
        let mut g = f.clone();
        let mut a = g.didx.take().unwrap();
        a.swap(i, j);
        g.didx = Some(a);
        if lnorm(&f.dmsgs)[i] != lnorm(&f.dmsgs)[j] { cx.count("probe.index_list_reordered_messages_as_given"); deliver(cx, verifier, g, "didx_reordered_messages_as_given".into(), ideal.clone()); }
    }
    if r >= 1 {
        // one index listed twice, ONE message for it: R + 1 indexes for R messages (a verifier
        // that de-duplicates the indexes before counting sees nothing wrong)
        let i = cx.ch.choose("idx_dup_only", r as u64) as usize;
        let mut g = f.clone();
        let mut a = g.didx.take().unwrap();
        a.insert(i, a[i]);
        g.didx = Some(a);
        deliver(cx, verifier, g, "didx_duplicated_without_its_message".into(), ideal.clone());
    }
    if r >= 1 {
        let i = cx.ch.choose("pair_drop", r as u64) as usize;
        let mut g = f.clone();
        let (mut a, mut b) = (g.didx.take().unwrap(), g.dmsgs.take().unwrap());
        a.remove(i); b.remove(i);
        g.didx = Some(a); g.dmsgs = Some(b);
        deliver(cx, verifier, g, "pair_dropped".into(), ideal.clone());
        let mut g = f.clone();
        let (mut a, mut b) = (g.didx.take().unwrap(), g.dmsgs.take().unwrap());
        a.push(a[i]); b.push(b[i].clone());
        g.didx = Some(a); g.dmsgs = Some(b);
        deliver(cx, verifier, g, "pair_duplicated".into(), ideal.clone());
    }
    if r >= 1 {
        // a second, different message claimed for an index that is already disclosed -- after and
        // before the genuine pair (a verifier that de-duplicates by index must not silently drop it)
        let i = cx.ch.choose("pair_conflict", r as u64) as usize;
        for before in [false, true] {
            let mut g = f.clone();
            let (mut a, mut b) = (g.didx.take().unwrap(), g.dmsgs.take().unwrap());
            let forged = bytes_for(cx.run_seed, b"conflict", s, 6);
            if before { a.insert(i, a[i]); b.insert(i, forged); } else { a.insert(i + 1, a[i]); b.insert(i + 1, forged); }
            g.didx = Some(a); g.dmsgs = Some(b);
            deliver(cx, verifier, g, format!("pair_conflicting_duplicate:{}", if before { "before" } else { "after" }), ideal.clone());
        }
    }
    {
        // claim one more disclosed message at an undisclosed / out-of-range position
        let mut g = f.clone();
        let (mut a, mut b) = (g.didx.take().unwrap_or_default(), g.dmsgs.take().unwrap_or_default());
        let newi = (0..=l).find(|i| !a.contains(i)).unwrap_or(l);
        let pos = a.iter().position(|&x| x > newi).unwrap_or(a.len());
        a.insert(pos, newi); b.insert(pos, bytes_for(cx.run_seed, b"claimed", s, 7));
        g.didx = Some(a); g.dmsgs = Some(b);
        deliver(cx, verifier, g, "pair_added".into(), ideal.clone());
    }
    // (4) header / ph
    for of in OctFault::all() {
        let mut g = f.clone(); of.apply(&mut g.header, cx.run_seed); deliver(cx, verifier, g, format!("header_{}", of.kind()), ideal.clone());
        let mut g = f.clone(); of.apply(&mut g.ph, cx.run_seed); deliver(cx, verifier, g, format!("ph_{}", of.kind()), ideal.clone());
    }
    { let mut g = f.clone(); std::mem::swap(&mut g.header, &mut g.ph); deliver(cx, verifier, g, "header_ph_swapped".into(), ideal.clone()); }
    // (5) misroute
    { let mut g = f.clone(); g.suite = f.suite.other(); deliver(cx, verifier, g, "misroute_suite".into(), ideal.clone()); }
    { let mut g = f.clone(); g.blind_l = Some(Some(l.saturating_sub(1))); deliver(cx, verifier, g, "misroute_interface".into(), ideal.clone()); }
    { let mut g = f.clone(); g.json = Some(proof_json(&f.proof)); deliver(cx, verifier, g, "json_codec".into(), ideal.clone()); }
    for _ in 0..4 { let mut g = f.clone(); let bit = cx.ch.choose("pk_bit", 768) as usize; flip(&mut g.pk, bit); deliver(cx, verifier, g, "store_pk_bitflip".into(), ideal.clone()); }
    let suite = f.suite;
    let ikm2 = bytes_for(cx.run_seed, b"ikm-other", s, 32);
    let (f5, ideal5) = (f.clone(), ideal.clone());
    cx.step(issuer, "keygen_other", StepOpts::default(), move || api::keygen(suite, &ikm2, None, None), move |cx, st| {
        if let Ok(Ok((_, pk2))) = st.out { let mut g = f5.clone(); g.pk = pk2; deliver(cx, verifier, g, "misroute_key".into(), ideal5.clone()); }
    });
    // (6) Mallory: frames built from public data only
    mallory(cx, &f, l, verifier, ideal);
}

/// Forged Presentation frames for a statement of Mallory's choosing, built without any
/// signature: degenerate group elements and responses chosen to cancel the verifier's
/// recomputation (DESIGN.md §4.3).  The challenge is computed honestly by the spec model.
fn mallory(cx: &mut Cx, honest: &Presentation, l_honest: usize, verifier: NodeId, ideal: Shared) {
    let suite = honest.suite;
    let mut x = Xo::new(cx.run_seed, &[b"mallory"]);
    // claimed statement: either the honest verifier-side data with other messages, or the honest one itself
    let claims: Vec<(Vec<usize>, Vec<Bytes>, usize)> = {
        let mut v = Vec::new();
        // (a) same shape as the honest presentation, same disclosed data
        v.push((inorm(&honest.didx).to_vec(), lnorm(&honest.dmsgs).to_vec(), l_honest - inorm(&honest.didx).len()));
        // (b) everything disclosed, messages of Mallory's choosing
        let lm = 1 + cx.ch.choose("mallory_L", 4) as usize;
        v.push(((0..lm).collect(), (0..lm).map(|i| bytes_for(cx.run_seed, b"mallory-msg", i as u64, 5)).collect(), 0));
        // (c) nothing disclosed, U hidden
        v.push((vec![], vec![], cx.ch.choose("mallory_U", 4) as usize));
        v
    };
    let api = rm::api_id(suite, false);
    let pk96: [u8; 96] = match honest.pk.as_slice().try_into() { Ok(a) => a, Err(_) => return };
    let header = honest.header.clone().unwrap_or_default();
    let ph = honest.ph.clone().unwrap_or_default();
    for (ci, (didx, dmsgs, u)) in claims.into_iter().enumerate() {
        let r = didx.len();
        let lt = u + r;
        let Ok(gens) = rm::create_generators(suite, lt + 1, &api) else { continue };
        let Ok(domain) = rm::calculate_domain(suite, &pk96, &gens[0], &gens[1..], &header, &api) else { continue };
        let Ok(ms) = rm::messages_to_scalars(suite, &dmsgs, &api) else { continue };
        let disclosed: Vec<(usize, Scalar)> = didx.iter().copied().zip(ms).collect();
        let mut bv = rm::p1(suite) + gens[0] * domain;
        for (i, m) in &disclosed { bv += gens[1 + i] * m; }
        let und: Vec<usize> = (0..lt).filter(|j| !didx.contains(j)).collect();
        let rnd = |x: &mut Xo| { let mut b = [0u8; 48]; x.fill(&mut b); Scalar::from_okm(&b) };
        // families: (name, Abar, Bbar, D-kind)
        let id = G1Projective::identity();
        let k = rnd(&mut x);
        let rp = G1Projective::generator() * rnd(&mut x);
        let so = small_order_point();
        let fams: Vec<(&str, G1Projective, G1Projective, G1Projective, Option<Scalar>)> = vec![
            // Abar = Bbar = S of cofactor order (not in G1): e(S, .) = 1, so the pairing check is void;
            // e^ = -c makes T1 = D*r1^ independent of c
            ("smallorder-smallorder-Bv", so, so, bv, Some(Scalar::ONE)),
            ("smallorder-smallorder-kBv", so, so, bv * k, Some(k)),
            // D = Bv*k, r3^ = -c/k cancels Bv*c; T1 = D*r1^, T2 = sum H_j m^_j are known before c
            ("id-id-Bv", id, id, bv, Some(Scalar::ONE)),
            ("id-id-kBv", id, id, bv * k, Some(k)),
            // the same with non-identity but unrelated Abar/Bbar (pairing cannot hold): must be rejected anyway
            ("rand-rand-Bv", rp, rp * k, bv, Some(Scalar::ONE)),
            // D in {P1, Q1, identity, random}: no response cancels Bv*c -> use r3^ = -c anyway
            ("id-id-P1", id, id, rm::p1(suite), None),
            ("id-id-Q1", id, id, gens[0], None),
            ("id-id-id", id, id, id, None),
            ("id-id-rand", id, id, rp, None),
            ("Bv-Bv-Bv", bv, bv, bv, Some(Scalar::ONE)),
            // Abar = alpha*D, Bbar = beta*D, D = k*Bv with responses solving BOTH T1 and T2: a complete
            // transcript made without any signature; the challenge comparison passes and only the
            // pairing equation refuses it
            ("aD-bD-kBv", bv * k * k, bv * k * (k + Scalar::ONE), bv * k, Some(k)),
        ];
        // Abar, Bbar of the HONEST proof (they satisfy the pairing), D = Bv of the claimed statement,
        // e^ = 0: a transcript that is consistent for a verifier whose T1 collapses when a response is
        // zero (T1 taken as the identity, T2 = Bv*t + sum H_j m^_j, r3^ = t - c)
        let fams = { let mut v = fams; if let Ok(hp) = rm::octets_to_proof(&honest.proof, false) { v.push(("honestAbar-honestBbar-Bv-zero_e^", hp.abar, hp.bbar, bv, None)); } v };
        for (name, abar, bbar, d, cancel) in fams {
            let smallorder = name.starts_with("smallorder");
            let e_cap = if name.starts_with("id-id") { rnd(&mut x) } else { Scalar::ZERO };
            let r1_cap = rnd(&mut x);
            let m_cap: Vec<Scalar> = und.iter().map(|_| rnd(&mut x)).collect();
            // what the verifier will recompute, as far as it does not depend on c
            let c_guess = Scalar::ZERO;
            let _ = c_guess;
            // T1 = Bbar*c + Abar*e^ + D*r1^ ; with Abar = Bbar = identity this is D*r1^
            // T2 = Bv*c + D*r3^ + sum H_j m^_j ; with D = Bv*k and r3^ = -c/k this is sum H_j m^_j
            let mut t2_free = G1Projective::identity();
            for (kk, j) in und.iter().enumerate() { t2_free += gens[1 + j] * m_cap[kk]; }
            // small-order family: Bbar*c + Abar*e^ = S*(c + e^) vanishes for e^ = -c
            let zero_e = name.ends_with("zero_e^");
            let t_zero = rnd(&mut x);
            let multiples = name == "aD-bD-kBv"; // alpha = k, beta = k + 1
            let rho = rnd(&mut x);
            if zero_e { t2_free += bv * t_zero; }
            let t1_free = if zero_e { id } else if multiples { d * rho } else if smallorder { d * r1_cap } else { abar * e_cap + d * r1_cap }; // + Bbar*c, zero when Bbar is the identity
            // fixed point: c = H(.., T1(c), T2(c), ..) has no dependence on c in the cancelling families
            let c = match rm::challenge(suite, &api, &disclosed, &abar, &bbar, &d, &t1_free, &t2_free, &domain, &ph) { Ok(c) => c, Err(_) => continue };
            let r3_cap = if zero_e { t_zero - c } else { match cancel { Some(kv) => -(c * kv.invert().unwrap()), None => -c } };
            // S has order 3: S*c + S*e^ vanishes iff the canonical integers satisfy c + e^ = 0 mod 3
            let e_cap = if smallorder {
                let mut e = rnd(&mut x);
                while (scalar_mod3(&e) + scalar_mod3(&c)) % 3 != 0 { e += Scalar::ONE; }
                e
            } else { e_cap };
            // T1 = Bbar*c + Abar*e^ + D*r1^ = D*(beta*c + alpha*e^ + r1^): r1^ = rho - alpha*e^ - beta*c
            let (e_cap, r1_cap) = if zero_e { (Scalar::ZERO, r1_cap) } else if multiples { let e = rnd(&mut x); (e, rho - k * e - (k + Scalar::ONE) * c) } else { (e_cap, r1_cap) };
            let p = rm::Proof { abar, bbar, d, e_cap, r1_cap, r3_cap, m_cap, c };
            let bytes = p.to_bytes();
            let base = Presentation { suite, pk: honest.pk.clone(), proof: bytes.clone(), header: honest.header.clone(), ph: honest.ph.clone(), dmsgs: Some(dmsgs.clone()), didx: Some(didx.clone()), json: None, blind_l: None };
            cx.cell(format!("mallory|{name}|claim{ci}"));
            deliver(cx, verifier, base.clone(), format!("forged:{name}"), ideal.clone());
            // a refused frame presented again to the same verifier thread is refused again
            if cx.ch.chance("present_forged_frame_again", 1, 2) { deliver(cx, verifier, base.clone(), format!("forged:{name}:again"), ideal.clone()); }
            let mut j = base.clone();
            j.json = Some(proof_json(&bytes));
            deliver(cx, verifier, j, format!("forged-json:{name}"), ideal.clone());
        }
    }
}

/// a point of order 3 on E(Fp) (so NOT in G1): the first on-curve, non-subgroup x multiplied
/// by the group order r and by cofactor/3 with plain double-and-add
pub fn small_order_point() -> G1Projective {
    use bls12_381_plus::G1Affine;
    const R_BE: [u8; 32] = [0x73, 0xed, 0xa7, 0x53, 0x29, 0x9d, 0x7d, 0x48, 0x33, 0x39, 0xd8, 0x08, 0x09, 0xa1, 0xd8, 0x05, 0x53, 0xbd, 0xa4, 0x02, 0xff, 0xfe, 0x5b, 0xfe, 0xff, 0xff, 0xff, 0xff, 0x00, 0x00, 0x00, 0x01];
    const H_DIV_3: [u8; 16] = [0x13, 0x24, 0x2e, 0xaa, 0xc7, 0x1c, 0xa0, 0x72, 0x2e, 0xaa, 0xe3, 0x8e, 0x55, 0x55, 0x8e, 0x39];
    fn mul_be(p: &G1Projective, k: &[u8]) -> G1Projective {
        let mut acc = G1Projective::identity();
        for byte in k { for bit in (0..8).rev() { acc = acc.double(); if byte >> bit & 1 == 1 { acc += p; } } }
        acc
    }
    for x in 1u8..=250 {
        let mut b = [0u8; 48];
        b[0] = 0x80; b[47] = x;
        if let Some(p) = Option::<G1Affine>::from(G1Affine::from_compressed_unchecked(&b)) {
            if bool::from(p.is_torsion_free()) { continue; }
            let s3 = mul_be(&mul_be(&G1Projective::from(p), &R_BE), &H_DIV_3);
            if !bool::from(s3.is_identity()) && bool::from((s3.double() + s3).is_identity()) { return s3; }
        }
    }
    G1Projective::identity()
}

/// canonical integer of a scalar modulo 3 (256 = 1 mod 3, so the octet sum decides)
pub fn scalar_mod3(s: &Scalar) -> u8 {
    (s.to_be_bytes().iter().map(|b| *b as u32).sum::<u32>() % 3) as u8
}
