//! What a node *does*: every function here is one protocol action of a role, executed on
//! the node's own thread, through zkryptium's public API only, with octet strings in and
//! octet strings out (the wire/store forms).
use zkryptium::bbsplus::ciphersuites::{BbsCiphersuite, Bls12381Sha256, Bls12381Shake256};
use zkryptium::bbsplus::commitment::BlindFactor;
use zkryptium::bbsplus::generators::Generators;
use zkryptium::bbsplus::keys::{BBSplusPublicKey, BBSplusSecretKey};
use zkryptium::keys::pair::KeyPair;
use zkryptium::schemes::algorithms::BBSplus;
use zkryptium::schemes::generics::{BlindSignature, Commitment, PoKSignature, Signature};

pub type Bytes = Vec<u8>;
pub type Opt = Option<Vec<u8>>;
pub type OptList = Option<Vec<Vec<u8>>>;
pub type OptIdx = Option<Vec<usize>>;

#[derive(Clone, Copy, Debug, PartialEq, Eq, PartialOrd, Ord, Hash)]
pub enum Suite {
    Sha256,
    Shake256,
}
impl Suite {
    pub fn name(self) -> &'static str {
        match self { Suite::Sha256 => "sha256", Suite::Shake256 => "shake256" }
    }
    pub fn other(self) -> Suite {
        match self { Suite::Sha256 => Suite::Shake256, Suite::Shake256 => Suite::Sha256 }
    }
    pub fn from_idx(i: u64) -> Suite {
        if i % 2 == 0 { Suite::Sha256 } else { Suite::Shake256 }
    }
}

#[macro_export]
macro_rules! with_suite {
    ($s:expr, $CS:ident, $body:expr) => {
        match $s {
            $crate::api::Suite::Sha256 => { type $CS = zkryptium::bbsplus::ciphersuites::Bls12381Sha256; $body }
            $crate::api::Suite::Shake256 => { type $CS = zkryptium::bbsplus::ciphersuites::Bls12381Shake256; $body }
        }
    };
}

/// Outcome of a verifying / issuing handler as seen by the peer.
#[derive(Clone, Debug, PartialEq, Eq)]
pub enum Res {
    Accept,
    /// the library said Err (decode or verification)
    Reject(String),
    /// the frame could not even be handed to the library (fixed-size array parameter)
    Boundary(String),
}
impl Res {
    pub fn accepted(&self) -> bool { matches!(self, Res::Accept) }
    pub fn tag(&self) -> &'static str {
        match self { Res::Accept => "accept", Res::Reject(_) => "reject", Res::Boundary(_) => "boundary" }
    }
}

fn e2s<E: std::fmt::Debug>(e: E) -> String { format!("{e:?}") }

pub fn api_id(s: Suite, blind: bool) -> &'static [u8] {
    with_suite!(s, CS, if blind { <CS as BbsCiphersuite>::API_ID_BLIND } else { <CS as BbsCiphersuite>::API_ID })
}

// ------------------------------------------------------------------ keys

pub fn keygen(s: Suite, ikm: &[u8], info: Option<&[u8]>, dst: Option<&[u8]>) -> Result<(Bytes, Bytes), String> {
    with_suite!(s, CS, {
        let kp = KeyPair::<BBSplus<CS>>::generate(ikm, info, dst).map_err(e2s)?;
        Ok((kp.private_key().to_bytes().to_vec(), kp.public_key().to_bytes().to_vec()))
    })
}
pub fn keygen_random(s: Suite) -> Result<(Bytes, Bytes), String> {
    with_suite!(s, CS, {
        let kp = KeyPair::<BBSplus<CS>>::random().map_err(e2s)?;
        Ok((kp.private_key().to_bytes().to_vec(), kp.public_key().to_bytes().to_vec()))
    })
}
/// the library's own key store: KeyGen, then KeyPair::write_keypair_to_file(path); returns (sk, pk)
pub fn keypair_to_file(s: Suite, ikm: &[u8], path: &str) -> Result<(Bytes, Bytes), String> {
    with_suite!(s, CS, {
        let kp = KeyPair::<BBSplus<CS>>::generate(ikm, None, None).map_err(e2s)?;
        kp.write_keypair_to_file(Some(path.to_string()));
        Ok((kp.private_key().to_bytes().to_vec(), kp.public_key().to_bytes().to_vec()))
    })
}
/// ... and the reader an application would write: the stored JSON document parsed as a key pair
pub fn keypair_from_file(s: Suite, path: &str) -> Result<(Bytes, Bytes), String> {
    let text = std::fs::read_to_string(path).map_err(|e| e.to_string())?;
    with_suite!(s, CS, {
        let kp: KeyPair<BBSplus<CS>> = dj(&text).map_err(|e| format!("the stored document does not parse: {e}"))?;
        Ok((kp.private_key().to_bytes().to_vec(), kp.public_key().to_bytes().to_vec()))
    })
}
pub fn sk_to_pk(sk: &[u8]) -> Result<Bytes, String> {
    let sk = BBSplusSecretKey::from_bytes(sk).map_err(e2s)?;
    Ok(sk.public_key().to_bytes().to_vec())
}

/// how an issuer that restarted gets its key back from its store
#[derive(Clone, Copy, Debug, PartialEq, Eq)]
pub enum KeyCodec { Octets, Coordinates, Json }

/// store -> in-memory -> store: returns (sk, pk) octets after the chosen codec round trip
pub fn reload_keys(s: Suite, sk: &[u8], pk: &[u8], codec: KeyCodec) -> Result<(Bytes, Bytes), String> {
    let skk = BBSplusSecretKey::from_bytes(sk).map_err(e2s)?;
    let pkk = BBSplusPublicKey::from_bytes(pk).map_err(e2s)?;
    match codec {
        KeyCodec::Octets => Ok((skk.to_bytes().to_vec(), pkk.to_bytes().to_vec())),
        KeyCodec::Coordinates => {
            let (x, y) = pkk.to_coordinates();
            let pk2 = BBSplusPublicKey::from_coordinates(&x, &y).map_err(e2s)?;
            Ok((skk.to_bytes().to_vec(), pk2.to_bytes().to_vec()))
        }
        KeyCodec::Json => with_suite!(s, CS, {
            let kp = KeyPair::<BBSplus<CS>>::generate(&[7u8; 32], None, None).map_err(e2s)?;
            // KeyPair has no public constructor from parts: go through its JSON form
            let mut j = serde_json::to_value(&kp).map_err(e2s)?;
            j["public"] = serde_json::to_value(&pkk).map_err(e2s)?;
            j["private"] = serde_json::to_value(&skk).map_err(e2s)?;
            let txt = serde_json::to_string(&j).map_err(e2s)?;
            let kp2: KeyPair<BBSplus<CS>> = serde_json::from_str(&txt).map_err(e2s)?;
            Ok((kp2.private_key().to_bytes().to_vec(), kp2.public_key().to_bytes().to_vec()))
        }),
    }
}

// ------------------------------------------------------------------ plain signatures

pub fn sign(s: Suite, sk: &[u8], pk: &[u8], header: &Opt, msgs: &OptList) -> Result<Bytes, String> {
    let sk = BBSplusSecretKey::from_bytes(sk).map_err(e2s)?;
    let pk = BBSplusPublicKey::from_bytes(pk).map_err(e2s)?;
    with_suite!(s, CS, {
        let sig = Signature::<BBSplus<CS>>::sign(msgs.as_deref(), &sk, &pk, header.as_deref()).map_err(e2s)?;
        Ok(sig.to_bytes().to_vec())
    })
}

/// sign and verify the in-memory object as well (no encoding in between)
pub fn sign_and_selfcheck(s: Suite, sk: &[u8], pk: &[u8], header: &Opt, msgs: &OptList) -> Result<(Bytes, bool), String> {
    let skk = BBSplusSecretKey::from_bytes(sk).map_err(e2s)?;
    let pkk = BBSplusPublicKey::from_bytes(pk).map_err(e2s)?;
    with_suite!(s, CS, {
        let sig = Signature::<BBSplus<CS>>::sign(msgs.as_deref(), &skk, &pkk, header.as_deref()).map_err(e2s)?;
        let ok = sig.verify(&pkk, msgs.as_deref(), header.as_deref()).is_ok();
        Ok((sig.to_bytes().to_vec(), ok))
    })
}

pub fn verify(s: Suite, pk: &[u8], sig: &[u8], header: &Opt, msgs: &OptList) -> Res {
    let pk = match BBSplusPublicKey::from_bytes(pk) { Ok(p) => p, Err(e) => return Res::Reject(e2s(e)) };
    let arr: [u8; 80] = match sig.try_into() { Ok(a) => a, Err(_) => return Res::Boundary(format!("signature of {} octets", sig.len())) };
    with_suite!(s, CS, {
        let sig = match Signature::<BBSplus<CS>>::from_bytes(&arr) { Ok(x) => x, Err(e) => return Res::Reject(format!("decode:{}", e2s(e))) };
        match sig.verify(&pk, msgs.as_deref(), header.as_deref()) { Ok(()) => Res::Accept, Err(e) => Res::Reject(e2s(e)) }
    })
}

pub fn update(s: Suite, sk: &[u8], sig: &[u8], old: &[u8], new: &[u8], index: usize, n: usize) -> Result<Bytes, String> {
    let sk = BBSplusSecretKey::from_bytes(sk).map_err(e2s)?;
    let arr: [u8; 80] = sig.try_into().map_err(|_| "boundary: signature length".to_string())?;
    with_suite!(s, CS, {
        let sig = Signature::<BBSplus<CS>>::from_bytes(&arr).map_err(e2s)?;
        // when the new value extends the old one, the two are passed as views of ONE buffer
        // (`&buf[..k]`, `&buf[..]`): the same octets as two separate vectors
        let old: &[u8] = if new.len() >= old.len() && &new[..old.len()] == old { &new[..old.len()] } else { old };
        let up = sig.update_signature(&sk, old, new, index, n).map_err(e2s)?;
        Ok(up.to_bytes().to_vec())
    })
}

// ------------------------------------------------------------------ proofs

pub fn proof_gen(s: Suite, pk: &[u8], sig: &[u8], header: &Opt, ph: &Opt, msgs: &OptList, disclosed: &OptIdx) -> Result<Bytes, String> {
    let pk = BBSplusPublicKey::from_bytes(pk).map_err(e2s)?;
    with_suite!(s, CS, {
        let p = PoKSignature::<BBSplus<CS>>::proof_gen(&pk, sig, header.as_deref(), ph.as_deref(), msgs.as_deref(), disclosed.as_deref()).map_err(e2s)?;
        Ok(p.to_bytes())
    })
}

/// ProofGen, returning the octets AND the serde_json text of the freshly generated object (before
/// any octet round trip): what an application that ships the serde form would send
pub fn proof_gen_with_json(s: Suite, pk: &[u8], sig: &[u8], header: &Opt, ph: &Opt, msgs: &OptList, disclosed: &OptIdx) -> Result<(Bytes, String), String> {
    let pk = BBSplusPublicKey::from_bytes(pk).map_err(e2s)?;
    with_suite!(s, CS, {
        let p = PoKSignature::<BBSplus<CS>>::proof_gen(&pk, sig, header.as_deref(), ph.as_deref(), msgs.as_deref(), disclosed.as_deref()).map_err(e2s)?;
        let j = serde_json::to_string(&p).map_err(|e| e.to_string())?;
        Ok((p.to_bytes(), j))
    })
}

pub fn proof_verify(s: Suite, pk: &[u8], proof: &[u8], header: &Opt, ph: &Opt, dmsgs: &OptList, didx: &OptIdx) -> Res {
    let pk = match BBSplusPublicKey::from_bytes(pk) { Ok(p) => p, Err(e) => return Res::Reject(e2s(e)) };
    with_suite!(s, CS, {
        let p = match PoKSignature::<BBSplus<CS>>::from_bytes(proof) { Ok(x) => x, Err(e) => return Res::Reject(format!("decode:{}", e2s(e))) };
        match p.proof_verify(&pk, dmsgs.as_deref(), didx.as_deref(), header.as_deref(), ph.as_deref()) { Ok(()) => Res::Accept, Err(e) => Res::Reject(e2s(e)) }
    })
}

/// the same through the serde view of the proof (second decoder, bypasses from_bytes)
pub fn proof_verify_json(s: Suite, pk: &[u8], proof_json: &str, header: &Opt, ph: &Opt, dmsgs: &OptList, didx: &OptIdx) -> Res {
    let pk = match BBSplusPublicKey::from_bytes(pk) { Ok(p) => p, Err(e) => return Res::Reject(e2s(e)) };
    with_suite!(s, CS, {
        let p: PoKSignature<BBSplus<CS>> = match dj(proof_json) { Ok(x) => x, Err(e) => return Res::Reject(format!("decode:{}", e2s(e))) };
        match p.proof_verify(&pk, dmsgs.as_deref(), didx.as_deref(), header.as_deref(), ph.as_deref()) { Ok(()) => Res::Accept, Err(e) => Res::Reject(e2s(e)) }
    })
}

pub fn proof_to_json(s: Suite, proof: &[u8]) -> Result<String, String> {
    with_suite!(s, CS, {
        let p = PoKSignature::<BBSplus<CS>>::from_bytes(proof).map_err(e2s)?;
        serde_json::to_string(&p).map_err(e2s)
    })
}

// ------------------------------------------------------------------ blind

/// returns (commitment_with_proof octets, blind factor octets)
pub fn commit(s: Suite, committed: &OptList) -> Result<(Bytes, Bytes), String> {
    with_suite!(s, CS, {
        let (c, b) = Commitment::<BBSplus<CS>>::commit(committed.as_deref()).map_err(e2s)?;
        Ok((c.to_bytes(), b.to_bytes().to_vec()))
    })
}

pub fn blind_sign(s: Suite, sk: &[u8], pk: &[u8], cwp: &Opt, header: &Opt, msgs: &OptList) -> Result<Bytes, String> {
    let sk = BBSplusSecretKey::from_bytes(sk).map_err(e2s)?;
    let pk = BBSplusPublicKey::from_bytes(pk).map_err(e2s)?;
    with_suite!(s, CS, {
        let sig = BlindSignature::<BBSplus<CS>>::blind_sign(&sk, &pk, cwp.as_deref(), header.as_deref(), msgs.as_deref()).map_err(e2s)?;
        Ok(sig.to_bytes().to_vec())
    })
}

pub fn verify_blind(s: Suite, pk: &[u8], sig: &[u8], header: &Opt, msgs: &OptList, committed: &OptList, blind: &Opt) -> Res {
    let pk = match BBSplusPublicKey::from_bytes(pk) { Ok(p) => p, Err(e) => return Res::Reject(e2s(e)) };
    let arr: [u8; 80] = match sig.try_into() { Ok(a) => a, Err(_) => return Res::Boundary(format!("signature of {} octets", sig.len())) };
    let bf = match blind {
        None => None,
        Some(b) => {
            let a: [u8; 32] = match b.as_slice().try_into() { Ok(a) => a, Err(_) => return Res::Boundary(format!("blind factor of {} octets", b.len())) };
            match BlindFactor::from_bytes(&a) { Ok(f) => Some(f), Err(e) => return Res::Reject(format!("decode:{}", e2s(e))) }
        }
    };
    with_suite!(s, CS, {
        let sig = match BlindSignature::<BBSplus<CS>>::from_bytes(&arr) { Ok(x) => x, Err(e) => return Res::Reject(format!("decode:{}", e2s(e))) };
        match sig.verify_blind_sign(&pk, header.as_deref(), msgs.as_deref(), committed.as_deref(), bf.as_ref()) { Ok(()) => Res::Accept, Err(e) => Res::Reject(e2s(e)) }
    })
}

#[allow(clippy::too_many_arguments)]
pub fn blind_proof_gen(s: Suite, pk: &[u8], sig: &[u8], header: &Opt, ph: &Opt, msgs: &OptList, committed: &OptList, didx: &OptIdx, dcidx: &OptIdx, blind: &Opt) -> Result<Bytes, String> {
    let pk = BBSplusPublicKey::from_bytes(pk).map_err(e2s)?;
    let bf = match blind {
        None => None,
        Some(b) => {
            let a: [u8; 32] = b.as_slice().try_into().map_err(|_| "boundary: blind factor length".to_string())?;
            Some(BlindFactor::from_bytes(&a).map_err(e2s)?)
        }
    };
    with_suite!(s, CS, {
        let p = PoKSignature::<BBSplus<CS>>::blind_proof_gen(&pk, sig, header.as_deref(), ph.as_deref(), msgs.as_deref(), committed.as_deref(), didx.as_deref(), dcidx.as_deref(), bf.as_ref()).map_err(e2s)?;
        Ok(p.to_bytes())
    })
}

#[allow(clippy::too_many_arguments)]
pub fn blind_proof_verify(s: Suite, pk: &[u8], proof: &[u8], header: &Opt, ph: &Opt, l: Option<usize>, dmsgs: &OptList, dcmsgs: &OptList, didx: &OptIdx, dcidx: &OptIdx) -> Res {
    let pk = match BBSplusPublicKey::from_bytes(pk) { Ok(p) => p, Err(e) => return Res::Reject(e2s(e)) };
    with_suite!(s, CS, {
        let p = match PoKSignature::<BBSplus<CS>>::from_bytes(proof) { Ok(x) => x, Err(e) => return Res::Reject(format!("decode:{}", e2s(e))) };
        match p.blind_proof_verify(&pk, header.as_deref(), ph.as_deref(), l, dmsgs.as_deref(), dcmsgs.as_deref(), didx.as_deref(), dcidx.as_deref()) { Ok(()) => Res::Accept, Err(e) => Res::Reject(e2s(e)) }
    })
}

pub fn validate_commit(s: Suite, cwp: &Opt, n_blind_generators: usize) -> Res {
    with_suite!(s, CS, {
        let g = Generators::create::<CS>(n_blind_generators, Some(&[b"BLIND_", <CS as BbsCiphersuite>::API_ID_BLIND].concat()));
        match Commitment::<BBSplus<CS>>::deserialize_and_validate_commit(cwp.as_deref(), &g, Some(<CS as BbsCiphersuite>::API_ID_BLIND)) { Ok(_) => Res::Accept, Err(e) => Res::Reject(e2s(e)) }
    })
}

pub fn generators(s: Suite, count: usize, api_id: Option<&[u8]>) -> Vec<[u8; 48]> {
    use group::Curve;
    with_suite!(s, CS, {
        Generators::create::<CS>(count, api_id).values.iter().map(|p| p.to_affine().to_compressed()).collect()
    })
}

#[allow(dead_code)]
fn _assert_types() {
    fn is<T: BbsCiphersuite>() {}
    is::<Bls12381Sha256>();
    is::<Bls12381Shake256>();
}

// ------------------------------------------------------------------ decoders (C08 / C09)

#[derive(Clone, Copy, Debug, PartialEq, Eq, PartialOrd, Ord)]
pub enum Art { Pk, Sk, Sig, Proof, Zkpok, Commitment, BlindFactor, BlindSig }
impl Art {
    pub const ALL: [Art; 8] = [Art::Pk, Art::Sk, Art::Sig, Art::Proof, Art::Zkpok, Art::Commitment, Art::BlindFactor, Art::BlindSig];
    pub fn name(self) -> &'static str {
        match self { Art::Pk => "PublicKey", Art::Sk => "SecretKey", Art::Sig => "Signature", Art::Proof => "PoKSignature", Art::Zkpok => "ZKPoK", Art::Commitment => "Commitment", Art::BlindFactor => "BlindFactor", Art::BlindSig => "BlindSignature" }
    }
    /// decoders whose parameter is a fixed-size array: other lengths never reach the library
    pub fn fixed_len(self) -> Option<usize> {
        match self { Art::Sig | Art::BlindSig => Some(80), Art::BlindFactor => Some(32), _ => None }
    }
}

/// decode with `from_bytes` and re-encode with `to_bytes`
pub fn decode_reencode(s: Suite, art: Art, b: &[u8]) -> Result<Bytes, String> {
    use zkryptium::bbsplus::proof::BBSplusZKPoK;
    match art {
        Art::Pk => Ok(BBSplusPublicKey::from_bytes(b).map_err(e2s)?.to_bytes().to_vec()),
        Art::Sk => Ok(BBSplusSecretKey::from_bytes(b).map_err(e2s)?.to_bytes().to_vec()),
        Art::Sig => { let a: [u8; 80] = b.try_into().map_err(|_| "boundary".to_string())?; with_suite!(s, CS, Ok(Signature::<BBSplus<CS>>::from_bytes(&a).map_err(e2s)?.to_bytes().to_vec())) }
        Art::BlindSig => { let a: [u8; 80] = b.try_into().map_err(|_| "boundary".to_string())?; with_suite!(s, CS, Ok(BlindSignature::<BBSplus<CS>>::from_bytes(&a).map_err(e2s)?.to_bytes().to_vec())) }
        Art::Proof => with_suite!(s, CS, Ok(PoKSignature::<BBSplus<CS>>::from_bytes(b).map_err(e2s)?.to_bytes())),
        Art::Zkpok => Ok(BBSplusZKPoK::from_bytes(b).map_err(e2s)?.to_bytes()),
        Art::Commitment => with_suite!(s, CS, Ok(Commitment::<BBSplus<CS>>::from_bytes(b).map_err(e2s)?.to_bytes())),
        Art::BlindFactor => { let a: [u8; 32] = b.try_into().map_err(|_| "boundary".to_string())?; Ok(BlindFactor::from_bytes(&a).map_err(e2s)?.to_bytes().to_vec()) }
    }
}

/// octets -> object -> JSON text
pub fn to_json(s: Suite, art: Art, b: &[u8]) -> Result<String, String> {
    use zkryptium::bbsplus::proof::BBSplusZKPoK;
    match art {
        Art::Pk => serde_json::to_string(&BBSplusPublicKey::from_bytes(b).map_err(e2s)?).map_err(e2s),
        Art::Sk => serde_json::to_string(&BBSplusSecretKey::from_bytes(b).map_err(e2s)?).map_err(e2s),
        Art::Sig => { let a: [u8; 80] = b.try_into().map_err(|_| "boundary".to_string())?; with_suite!(s, CS, serde_json::to_string(&Signature::<BBSplus<CS>>::from_bytes(&a).map_err(e2s)?).map_err(e2s)) }
        Art::BlindSig => { let a: [u8; 80] = b.try_into().map_err(|_| "boundary".to_string())?; with_suite!(s, CS, serde_json::to_string(&BlindSignature::<BBSplus<CS>>::from_bytes(&a).map_err(e2s)?).map_err(e2s)) }
        Art::Proof => with_suite!(s, CS, serde_json::to_string(&PoKSignature::<BBSplus<CS>>::from_bytes(b).map_err(e2s)?).map_err(e2s)),
        Art::Zkpok => serde_json::to_string(&BBSplusZKPoK::from_bytes(b).map_err(e2s)?).map_err(e2s),
        Art::Commitment => with_suite!(s, CS, serde_json::to_string(&Commitment::<BBSplus<CS>>::from_bytes(b).map_err(e2s)?).map_err(e2s)),
        Art::BlindFactor => Err("no serde for BlindFactor".into()),
    }
}

/// JSON text -> object -> octets
/// JSON decoding through one of serde_json's three front ends, picked by the text itself (so that
/// every artefact sees all three over a batch): from_str (borrowing), from_reader (streaming, no
/// borrowed strings) and from_value (a parsed tree).  A correct Deserialize impl cannot tell them apart.
pub fn dj<T: serde::de::DeserializeOwned>(j: &str) -> Result<T, serde_json::Error> {
    match j.len() % 3 {
        0 => serde_json::from_str::<T>(j),
        1 => serde_json::from_reader::<_, T>(j.as_bytes()),
        _ => { let v: serde_json::Value = serde_json::from_str(j)?; serde_json::from_value::<T>(v) }
    }
}

pub fn from_json(s: Suite, art: Art, j: &str) -> Result<Bytes, String> {
    use zkryptium::bbsplus::proof::BBSplusZKPoK;
    match art {
        Art::Pk => Ok(dj::<BBSplusPublicKey>(j).map_err(e2s)?.to_bytes().to_vec()),
        Art::Sk => Ok(dj::<BBSplusSecretKey>(j).map_err(e2s)?.to_bytes().to_vec()),
        Art::Sig => with_suite!(s, CS, Ok(dj::<Signature<BBSplus<CS>>>(j).map_err(e2s)?.to_bytes().to_vec())),
        Art::BlindSig => with_suite!(s, CS, Ok(dj::<BlindSignature<BBSplus<CS>>>(j).map_err(e2s)?.to_bytes().to_vec())),
        Art::Proof => with_suite!(s, CS, Ok(dj::<PoKSignature<BBSplus<CS>>>(j).map_err(e2s)?.to_bytes())),
        Art::Zkpok => Ok(dj::<BBSplusZKPoK>(j).map_err(e2s)?.to_bytes()),
        Art::Commitment => with_suite!(s, CS, Ok(dj::<Commitment<BBSplus<CS>>>(j).map_err(e2s)?.to_bytes())),
        Art::BlindFactor => Err("no serde for BlindFactor".into()),
    }
}

pub fn pk_coordinates_roundtrip(pk: &[u8]) -> Result<Bytes, String> {
    let p = BBSplusPublicKey::from_bytes(pk).map_err(e2s)?;
    let (x, y) = p.to_coordinates();
    Ok(BBSplusPublicKey::from_coordinates(&x, &y).map_err(e2s)?.to_bytes().to_vec())
}
pub fn pk_from_coordinates(x: &[u8; 96], y: &[u8; 96]) -> Result<Bytes, String> {
    Ok(BBSplusPublicKey::from_coordinates(x, y).map_err(e2s)?.to_bytes().to_vec())
}
pub fn pk_to_coordinates(pk: &[u8]) -> Result<(Bytes, Bytes), String> {
    let p = BBSplusPublicKey::from_bytes(pk).map_err(e2s)?;
    let (x, y) = p.to_coordinates();
    Ok((x.to_vec(), y.to_vec()))
}

/// the same for a caller-chosen interface identifier
pub fn merged_blind_generators_for(s: Suite, n: usize, m: usize, api: Option<&[u8]>) -> Result<Vec<[u8; 48]>, String> {
    #[cfg(not(feature = "library-helpers"))]
    { let _ = (s, n, m, api); return Err("engine built without the library-helpers feature".into()); }
    #[cfg(feature = "library-helpers")]
    {
    use group::Curve;
    with_suite!(s, CS, {
        let (_, g) = zkryptium::bbsplus::blind::prepare_parameters::<CS>(None, None, n, m, None, api).map_err(e2s)?;
        Ok(g.values.iter().map(|p| p.to_affine().to_compressed()).collect())
    })
    }
}

/// the generator list the blind interface verifies against: create(n, api) ++ create(m, "BLIND_" || api)
pub fn merged_blind_generators(s: Suite, n: usize, m: usize, api_present: bool) -> Result<Vec<[u8; 48]>, String> {
    #[cfg(not(feature = "library-helpers"))]
    { let _ = (s, n, m, api_present); return Err("engine built without the library-helpers feature".into()); }
    #[cfg(feature = "library-helpers")]
    {
    use group::Curve;
    with_suite!(s, CS, {
        let api: Option<&[u8]> = if api_present { Some(<CS as BbsCiphersuite>::API_ID_BLIND) } else { None };
        let (_, g) = zkryptium::bbsplus::blind::prepare_parameters::<CS>(None, None, n, m, None, api).map_err(e2s)?;
        Ok(g.values.iter().map(|p| p.to_affine().to_compressed()).collect())
    })
    }
}
