//! Free-running bursts (sim::Cx::burst): several nodes are inside library calls AT THE SAME TIME.
//! Everything else in this engine hands the baton to one node at a time and can only park a call
//! at a tick; a library change that keeps process-wide state across the phases of a call and has
//! no tick in between (or runs its own worker threads) needs real overlap to show.  The oracles are
//! the same as in the serial scenarios; on a library without shared state a burst is
//! indistinguishable from any serial order.
use crate::api::{self, Bytes, Suite};
use crate::refmodel as rm;
use zksim_core::prng::bytes_for;
use zksim_core::sim::{Cx, NodeId, StepOpts};

fn burst_nodes(cx: &mut Cx, k: usize) -> Vec<NodeId> { (0..k).map(|i| cx.node(&format!("burst{i}"))).collect() }

/// C01: concurrent issuance of credentials with many messages (long generator lists, long
/// message-to-scalar loops), both suites; afterwards every signature is verified again serially and
/// re-signed serially (signing is deterministic)
pub fn sign_burst(cx: &mut Cx) {
    let k = 3 + cx.ch.choose("burst_nodes", 3) as usize;
    let nodes = burst_nodes(cx, k);
    let seed = cx.run_seed;
    let mut specs = Vec::new();
    for i in 0..k {
        let suite = Suite::from_idx(cx.ch.choose("burst_suite", 2));
        let l = [3usize, 33, 40, 64, 70, 110, 130][cx.ch.choose("burst_L", 7) as usize];
        let big = cx.ch.chance("burst_big_messages", 1, 4);
        let msgs: Vec<Bytes> = (0..l).map(|j| bytes_for(seed, b"burst-m", (i * 1000 + j) as u64, if big { 4096 } else { 3 + j % 11 })).collect();
        specs.push((suite, bytes_for(seed, b"burst-ikm", i as u64, 32), msgs));
    }
    cx.log(format!("sign burst: {:?}", specs.iter().map(|s| (s.0.name(), s.2.len())).collect::<Vec<_>>()));
    let steps: Vec<(NodeId, Box<dyn FnOnce() -> Result<(Bytes, Bytes, Bytes, bool, api::Res), String> + Send>)> = specs.iter().cloned().enumerate().map(|(i, (suite, ikm, msgs))| {
        let f: Box<dyn FnOnce() -> Result<(Bytes, Bytes, Bytes, bool, api::Res), String> + Send> = Box::new(move || {
            let (sk, pk) = api::keygen(suite, &ikm, None, None)?;
            let (sig, ok) = api::sign_and_selfcheck(suite, &sk, &pk, &None, &Some(msgs.clone()))?;
            let v = api::verify(suite, &pk, &sig, &None, &Some(msgs));
            Ok((sk, pk, sig, ok, v))
        });
        (nodes[i], f)
    }).collect();
    let nodes2 = nodes.clone();
    cx.burst(steps, "keygen+sign+verify", move |cx, outs| {
        for (i, st) in outs.into_iter().enumerate() {
            let (suite, _, msgs) = specs[i].clone();
            cx.eval(&[b"sign-burst", &(i as u64).to_le_bytes(), &(msgs.len() as u64).to_le_bytes()], true);
            cx.count("fault.concurrent_calls");
            let (sk, pk, sig) = match st.out {
                Ok(Ok((sk, pk, sig, true, api::Res::Accept))) => (sk, pk, sig),
                other => { cx.violation("C01", "concurrent/sign-or-verify-failed".into(), format!("suite={} L={}: {:?}", suite.name(), msgs.len(), other.map(|r| r.map(|t| (t.3, t.4))))); continue; }
            };
            // serial re-check on the same node once everybody is done
            let (m2, sig2) = (msgs.clone(), sig.clone());
            cx.step(nodes2[i], "verify+resign-after-burst", Default::default(), move || (api::verify(suite, &pk, &sig2, &None, &Some(m2.clone())), api::sign(suite, &sk, &pk, &None, &Some(m2))), move |cx, st| {
                cx.eval(&[b"sign-burst-recheck", &sig], true);
                match st.out {
                    Ok((api::Res::Accept, Ok(again))) if again == sig => cx.count("verdict.MustAccept.accept"),
                    other => cx.violation("C01", "concurrent/signature-made-under-overlap-is-wrong".into(), format!("suite={} L={}: verify / re-sign afterwards: {:?}", suite.name(), msgs.len(), other.map(|t| (t.0, t.1.map(|s| s == sig))))),
                }
            });
        }
    });
    cx.run();
}

/// C03 / C05: concurrent issuance, then concurrent presentations (several per holder, back to
/// back, so that the random-draw and generator phases of different holders overlap); short and
/// long credentials mixed (>= 64 terms in the sums for the long ones).  All proofs are verified
/// serially afterwards.
pub fn proof_burst(cx: &mut Cx, blind: bool) {
    let k = 3 + cx.ch.choose("burst_nodes", 4) as usize;
    let rounds = 2 + cx.ch.choose("burst_rounds", 6) as usize;
    let nodes = burst_nodes(cx, k);
    let seed = cx.run_seed;
    let prop = if blind { "C05" } else { "C03" };
    let mut specs = Vec::new();
    for _ in 0..k {
        let suite = Suite::from_idx(cx.ch.choose("burst_suite", 2));
        let l = [1usize, 2, 5, 40, 66, 90][cx.ch.choose("burst_L", 6) as usize];
        let m = if blind { [0usize, 1, 3, 40, 70][cx.ch.choose("burst_M", 5) as usize] } else { 0 };
        specs.push((suite, l, m));
    }
    cx.log(format!("proof burst (blind={blind}, {rounds} presentations each): {specs:?}"));
    #[derive(Clone)]
    struct Cred { suite: Suite, pk: Bytes, sig: Bytes, msgs: Vec<Bytes>, cms: Vec<Bytes>, bf: Bytes }
    let steps: Vec<(NodeId, Box<dyn FnOnce() -> Result<Cred, String> + Send>)> = specs.iter().cloned().enumerate().map(|(i, (suite, l, m))| {
        let f: Box<dyn FnOnce() -> Result<Cred, String> + Send> = Box::new(move || {
            let (sk, pk) = api::keygen(suite, &bytes_for(seed, b"pb-ikm", i as u64, 32), None, None)?;
            let msgs: Vec<Bytes> = (0..l).map(|j| bytes_for(seed, b"pb-m", (i * 1000 + j) as u64, 4 + j % 9)).collect();
            let cms: Vec<Bytes> = (0..m).map(|j| bytes_for(seed, b"pb-c", (i * 1000 + j) as u64, 4 + j % 9)).collect();
            let header = Some(b"hdr".to_vec());
            if blind {
                let (cwp, bf) = api::commit(suite, &Some(cms.clone()))?;
                let sig = api::blind_sign(suite, &sk, &pk, &Some(cwp), &header, &Some(msgs.clone()))?;
                if !api::verify_blind(suite, &pk, &sig, &header, &Some(msgs.clone()), &Some(cms.clone()), &Some(bf.clone())).accepted() { return Err("verify_blind_sign failed inside the burst".into()); }
                Ok(Cred { suite, pk, sig, msgs, cms, bf })
            } else {
                let sig = api::sign(suite, &sk, &pk, &header, &Some(msgs.clone()))?;
                Ok(Cred { suite, pk, sig, msgs, cms, bf: vec![] })
            }
        });
        (nodes[i], f)
    }).collect();
    let nodes2 = nodes.clone();
    cx.burst(steps, "issue", move |cx, outs| {
        let mut creds = Vec::new();
        for (i, st) in outs.into_iter().enumerate() {
            cx.count("fault.concurrent_calls");
            match st.out {
                Ok(Ok(c)) => creds.push((nodes2[i], c)),
                other => cx.violation(prop, "concurrent/issuance-failed".into(), format!("{:?}: {:?}", specs[i], other.err())),
            }
        }
        type Out = Vec<(Result<Bytes, String>, Vec<usize>, Vec<usize>, Option<Bytes>)>;
        let steps: Vec<(NodeId, Box<dyn FnOnce() -> Out + Send>)> = creds.iter().cloned().map(|(n, c)| {
            let f: Box<dyn FnOnce() -> Out + Send> = Box::new(move || (0..rounds).map(|r| {
                let l = c.msgs.len();
                let didx: Vec<usize> = if l > 8 { vec![r % l] } else { (0..l).filter(|j| (r >> j) & 1 == 1).collect() };
                let dcidx: Vec<usize> = if c.cms.is_empty() || r % 2 == 0 { vec![] } else { vec![r % c.cms.len()] };
                let ph = match r % 3 { 0 => None, 1 => Some(vec![]), _ => Some(b"nonce".to_vec()) };
                let header = Some(b"hdr".to_vec());
                let p = if blind { api::blind_proof_gen(c.suite, &c.pk, &c.sig, &header, &ph, &Some(c.msgs.clone()), &Some(c.cms.clone()), &Some(didx.clone()), &Some(dcidx.clone()), &Some(c.bf.clone())) }
                        else { api::proof_gen(c.suite, &c.pk, &c.sig, &header, &ph, &Some(c.msgs.clone()), &Some(didx.clone())) };
                (p, didx, dcidx, ph)
            }).collect());
            (n, f)
        }).collect();
        cx.burst(steps, "present", move |cx, outs| {
            for ((n, c), st) in creds.into_iter().zip(outs) {
                let Ok(list) = st.out else { cx.violation(prop, "concurrent/proof_gen-crashed".into(), String::new()); continue; };
                for (r, (p, didx, dcidx, ph)) in list.into_iter().enumerate() {
                    cx.count("fault.concurrent_calls");
                    let (suite, l, m) = (c.suite, c.msgs.len(), c.cms.len());
                    let proof = match p { Ok(p) => p, Err(e) => { cx.eval(&[b"proof-burst-fail", e.as_bytes()], true); cx.violation(prop, "concurrent/proof_gen-failed".into(), format!("suite={} L={l} M={m} presentation {r}: {e}", suite.name())); continue; } };
                    let (c2, proof2) = (c.clone(), proof.clone());
                    cx.step(n, "verify-after-burst", Default::default(), move || {
                        let dm: Vec<Bytes> = didx.iter().map(|&j| c2.msgs[j].clone()).collect();
                        let dcm: Vec<Bytes> = dcidx.iter().map(|&j| c2.cms[j].clone()).collect();
                        let rt = api::decode_reencode(c2.suite, api::Art::Proof, &proof2);
                        let v = if blind { api::blind_proof_verify(c2.suite, &c2.pk, &proof2, &Some(b"hdr".to_vec()), &ph, Some(c2.msgs.len()), &Some(dm), &Some(dcm), &Some(didx), &Some(dcidx)) }
                                else { api::proof_verify(c2.suite, &c2.pk, &proof2, &Some(b"hdr".to_vec()), &ph, &Some(dm), &Some(didx)) };
                        (v, rt.map(|b| b == proof2))
                    }, move |cx, st| {
                        cx.eval(&[b"proof-burst", &proof], true);
                        match st.out {
                            Ok((api::Res::Accept, Ok(true))) => cx.count("verdict.MustAccept.accept"),
                            other => cx.violation(prop, "concurrent/proof-made-under-overlap-does-not-verify".into(), format!("suite={} L={l} M={m} presentation {r}: (verify, octet round trip) = {other:?}", suite.name())),
                        }
                    });
                }
            }
        });
    });
    cx.run();
}

/// C10 / C11: concurrent Generators::create under one fresh api_id (a long request overlapping
/// short ones) and under a second api_id; afterwards serial requests are compared with the model
pub fn generator_burst(cx: &mut Cx, prop: &'static str) {
    let k = 4usize;
    let nodes = burst_nodes(cx, k);
    let suite = Suite::from_idx(cx.ch.choose("burst_suite", 2));
    let x = bytes_for(cx.run_seed, b"burst-api-x", 0, 14);
    let y = bytes_for(cx.run_seed, b"burst-api-y", 0, 14);
    let long = 100 + cx.ch.choose("burst_long", 120) as usize;
    let steps: Vec<(NodeId, Box<dyn FnOnce() -> Vec<(usize, bool, Vec<[u8; 48]>)> + Send>)> = (0..k).map(|i| {
        let (x, y) = (x.clone(), y.clone());
        let f: Box<dyn FnOnce() -> Vec<(usize, bool, Vec<[u8; 48]>)> + Send> = Box::new(move || {
            let mut out = Vec::new();
            if i == 0 { out.push((long, true, api::generators(suite, long, Some(&x)))); }
            else { for r in 0..12usize { let n = 1 + (i * 7 + r * 5) % 45; let use_x = (i + r) % 3 != 0; out.push((n, use_x, api::generators(suite, n, Some(if use_x { &x } else { &y })))); } }
            out
        });
        (nodes[i], f)
    }).collect();
    let n0 = nodes[0];
    cx.burst(steps, "create_generators", move |cx, outs| {
        use group::Curve;
        let rx: Vec<[u8; 48]> = rm::create_generators(suite, long + 20, &x).unwrap().iter().map(|p| p.to_affine().to_compressed()).collect();
        let ry: Vec<[u8; 48]> = rm::create_generators(suite, 64, &y).unwrap().iter().map(|p| p.to_affine().to_compressed()).collect();
        for st in outs {
            let Ok(list) = st.out else { cx.violation(prop, "concurrent/create_generators-crashed".into(), String::new()); continue; };
            for (n, use_x, g) in list {
                cx.eval(&[b"gen-burst", &(n as u64).to_le_bytes(), &[use_x as u8]], true);
                cx.count("fault.concurrent_calls");
                let want = if use_x { &rx[..n] } else { &ry[..n] };
                if g.as_slice() != want { cx.violation(prop, "concurrent/create_generators-differs-from-model".into(), format!("{} generators for api_id {} requested during the overlap", n, if use_x { "X" } else { "Y" })); }
            }
        }
        // serial requests afterwards: a poisoned cache shows here
        let (x2, y2) = (x.clone(), y.clone());
        cx.step(n0, "create_generators-after-burst", Default::default(), move || (api::generators(suite, long + 20, Some(&x2)), api::generators(suite, 64, Some(&y2))), move |cx, st| {
            cx.eval(&[b"gen-burst-after", &x], true);
            match st.out {
                Ok((gx, gy)) if gx == rx && gy == ry => cx.count("verdict.MustAccept.accept"),
                _ => cx.violation(prop, "concurrent/create_generators-wrong-after-overlap".into(), "serial requests after the burst differ from the model".into()),
            }
        });
    });
    cx.run();
}

/// C10: verification under many issuer keys while one long verification is parked at a phase
/// boundary (forced preemption at "phase: proof_verify_init"; the parked call is resumed only
/// after every other queued verification has run).  Both decisions must equal the model's: the
/// honest long proof is accepted; a proof made from a signature computed with the attacker's
/// secret over the issuer's domain is rejected, whatever was verified in between.
pub fn many_keys_window(cx: &mut Cx) {
    let k = 9 + cx.ch.choose("ring_keys", 8) as usize;
    let suite = Suite::from_idx(cx.ch.choose("burst_suite", 2));
    let l = 2 + cx.ch.choose("ring_L", 40) as usize;
    let seed = cx.run_seed;
    let prep = cx.node("ring-prep");
    let verifiers: Vec<NodeId> = (0..4).map(|i| cx.node(&format!("ring-v{i}"))).collect();
    let attacker_last = cx.ch.chance("attacker_key_last", 3, 4);
    type Item = (Bytes, Bytes, Vec<Bytes>, Vec<usize>); // pk, proof, disclosed messages, indexes
    cx.step(prep, "issue-under-many-keys", StepOpts::default(), move || {
        let hd = Some(b"hdr".to_vec());
        let ph = Some(b"ph".to_vec());
        let mut short: Vec<Item> = Vec::new();
        let mut keys = Vec::new();
        for i in 0..k {
            let (sk, pk) = api::keygen(suite, &bytes_for(seed, b"ring-ikm", i as u64, 32), None, None)?;
            let msgs = vec![bytes_for(seed, b"ring-m", i as u64, 6)];
            let sig = api::sign(suite, &sk, &pk, &hd, &Some(msgs.clone()))?;
            let proof = api::proof_gen(suite, &pk, &sig, &hd, &ph, &Some(msgs.clone()), &Some(vec![0]))?;
            short.push((pk.clone(), proof, msgs, vec![0]));
            keys.push((sk, pk));
        }
        // key 0 = the issuer of the long credential; key 1 = the attacker
        let msgs: Vec<Bytes> = (0..l).map(|j| bytes_for(seed, b"ring-long", j as u64, 5)).collect();
        let (sk0, pk0) = keys[0].clone();
        let sig = api::sign(suite, &sk0, &pk0, &hd, &Some(msgs.clone()))?;
        let honest = api::proof_gen(suite, &pk0, &sig, &hd, &ph, &Some(msgs.clone()), &Some(vec![0]))?;
        let sk_att = rm::octets_to_scalar(&keys[1].0).map_err(|e| e.to_string())?;
        let pk0a: [u8; 96] = pk0.clone().try_into().map_err(|_| "pk length")?;
        let forged_sig = rm::sign(suite, &sk_att, &pk0a, b"hdr", &msgs).map_err(|e| e.to_string())?.to_bytes().to_vec();
        let forged = api::proof_gen(suite, &pk0, &forged_sig, &hd, &ph, &Some(msgs.clone()), &Some(vec![0])).ok();
        Ok::<_, String>((short, pk0, honest, forged, msgs[0].clone()))
    }, move |cx, st| {
        let (short, pk0, honest, forged, m0) = match st.out { Ok(Ok(t)) => t, other => { cx.log(format!("ring preparation failed: {:?}", other.err())); return; } };
        cx.starve_parked = true;
        let saved = std::mem::replace(&mut cx.preemptions_left, 0); // nothing else parks inside the window
        cx.count("probe.long_verification_parked_while_many_keys_are_verified");
        let mut longs = vec![(honest, true)];
        if let Some(f) = forged { longs.push((f, false)); }
        for (proof, want) in longs {
            // warm the library with all keys once (ring in a known state), then the window
            let mut order: Vec<usize> = (2..short.len()).collect();
            if attacker_last { order.push(1); } else { order.insert(0, 1); }
            let (pk, p2, m) = (pk0.clone(), proof.clone(), m0.clone());
            let n_keys = short.len() - 1;
            cx.step(verifiers[0], "long-verify", StepOpts { preempt_site: Some("phase:proof_verify_init"), ..Default::default() },
                move || api::proof_verify(suite, &pk, &p2, &Some(b"hdr".to_vec()), &Some(b"ph".to_vec()), &Some(vec![m]), &Some(vec![0])), move |cx, st| {
                cx.eval(&[b"ring-long", &proof, &[want as u8]], true);
                if st.preempted > 0 { cx.count("fault.forced_preemption_at_phase_boundary"); }
                cx.count(&format!("verdict.{}.{}", if want { "MustAccept" } else { "MustReject" }, match &st.out { Ok(r) => r.tag(), Err(_) => "crash" }));
                match (want, &st.out) {
                    (true, Ok(api::Res::Accept)) => {}
                    (false, Ok(r)) if !r.accepted() => {}
                    (true, other) => cx.violation("C10", "proof_verify/decision-differs".into(), format!("honest {l}-message proof verified while {n_keys} other issuer keys were in use: library {other:?}, model accepts")),
                    (false, other) => cx.violation("C10", "proof_verify/decision-differs".into(), format!("proof from a signature made with another secret key: library {other:?} while other issuer keys were in use, model rejects")),
                }
            });
            cx.run_until_parked(verifiers[0]);
            for (n, i) in order.into_iter().enumerate() {
                let (pk, proof, msgs, idx) = short[i].clone();
                let p2 = proof.clone();
                cx.step(verifiers[if attacker_last { 1 } else { 1 + n % 3 }], "short-verify", StepOpts::default(), move || api::proof_verify(suite, &pk, &p2, &Some(b"hdr".to_vec()), &Some(b"ph".to_vec()), &Some(msgs), &Some(idx)), move |cx, st| {
                    cx.eval(&[b"ring-short", &proof], true);
                    if !matches!(st.out, Ok(api::Res::Accept)) { cx.violation("C10", "proof_verify/decision-differs".into(), format!("honest one-message proof under issuer key {i}: library {:?}, model accepts", st.out)); }
                });
            }
            cx.run();
        }
        cx.starve_parked = false;
        cx.preemptions_left = saved;
    });
    cx.run();
}

/// COLD START: what a crash and restart of the whole process looks like to the library -- its
/// very first calls, and several threads making them at once (a server that comes back up under
/// load).  Once-per-process initialisation (lazy statics, self-tests, caches being born) can only
/// be raced there, so the probe runs in a CHILD process: this engine re-executed with the
/// `coldstart` subcommand, which releases n threads from a barrier into KeyGen + Sign + Verify +
/// create_generators (even threads) or KeyPair::random + commit (odd threads) and prints what
/// each obtained.  The parent compares the deterministic lines with the model.
pub fn coldstart_child(a: &[String]) {
    let suite = Suite::from_idx(a.first().and_then(|x| x.parse().ok()).unwrap_or(0));
    let seed: u64 = a.get(1).and_then(|x| x.parse().ok()).unwrap_or(1);
    let n: usize = a.get(2).and_then(|x| x.parse().ok()).unwrap_or(8);
    let barrier = std::sync::Arc::new(std::sync::Barrier::new(n));
    let hs: Vec<_> = (0..n).map(|i| {
        let b = barrier.clone();
        std::thread::spawn(move || {
            let ikm = bytes_for(seed, b"cold-ikm", i as u64, 32);
            let msgs = vec![bytes_for(seed, b"cold-m", i as u64, 7)];
            b.wait();
            let r: Result<String, String> = if i % 2 == 0 {
                (|| {
                    let (sk, pk) = api::keygen(suite, &ikm, None, None)?;
                    let sig = api::sign(suite, &sk, &pk, &Some(b"cold".to_vec()), &Some(msgs.clone()))?;
                    let ok = api::verify(suite, &pk, &sig, &Some(b"cold".to_vec()), &Some(msgs.clone())).accepted();
                    let g = api::generators(suite, 3, None).concat();
                    Ok(format!("{} {} {} {ok} {}", hex::encode(sk), hex::encode(pk), hex::encode(sig), hex::encode(g)))
                })()
            } else {
                (|| {
                    let (sk, _pk) = api::keygen_random(suite)?;
                    let (cwp, bf) = api::commit(suite, &Some(msgs.clone()))?;
                    let fine = sk.iter().any(|b| *b != 0) && bf.iter().any(|b| *b != 0) && api::validate_commit(suite, &Some(cwp), 2).accepted();
                    Ok(format!("random {fine}"))
                })()
            };
            match r { Ok(s) => format!("{i} ok {s}"), Err(e) => format!("{i} err {}", e.replace(' ', "_")) }
        })
    }).collect();
    for h in hs { match h.join() { Ok(l) => println!("{l}"), Err(_) => println!("x panic") } }
}

/// the parent side (C10): launch the child, compare with the model
pub fn cold_start(cx: &mut Cx) {
    let suite = Suite::from_idx(cx.ch.choose("burst_suite", 2));
    let n = [1usize, 2, 8, 16][cx.ch.choose("cold_threads", 4) as usize];
    let seed = cx.run_seed;
    let launcher = cx.node("launcher");
    cx.count("probe.cold_start_of_a_child_process");
    let sidx = if suite == Suite::from_idx(0) { 0 } else { 1 };
    cx.step(launcher, "cold-start-child", StepOpts::default(), move || {
        // (/proc/self/exe stays executable when the file was replaced on disk by a rebuild)
        let exe = if std::path::Path::new("/proc/self/exe").exists() { std::path::PathBuf::from("/proc/self/exe") } else { std::env::current_exe().map_err(|e| e.to_string())? };
        let out = std::process::Command::new(exe).args(["coldstart", &sidx.to_string(), &seed.to_string(), &n.to_string()]).output().map_err(|e| e.to_string())?;
        Ok::<_, String>((String::from_utf8_lossy(&out.stdout).to_string(), out.status.code()))
    }, move |cx, st| {
        let (text, code) = match st.out { Ok(Ok(t)) => t, other => { eprintln!("zksim: cold-start child could not be launched: {other:?} (harness error)"); std::process::exit(2); } };
        cx.eval(&[b"cold-start", text.as_bytes()], true);
        cx.count("fault.process_restart_with_concurrent_first_calls");
        if code != Some(0) { cx.violation("C10", "cold-start/child-crashed".into(), format!("exit status {code:?} with {n} threads making the first calls of the process")); return; }
        let lines: Vec<&str> = text.lines().collect();
        if lines.len() != n { cx.violation("C10", "cold-start/child-crashed".into(), format!("{} result lines for {n} threads", lines.len())); return; }
        for l in lines {
            let f: Vec<&str> = l.split(' ').collect();
            let Some(i) = f.first().and_then(|x| x.parse::<u64>().ok()) else { cx.violation("C10", "cold-start/thread-panicked".into(), l.to_string()); continue; };
            if f.get(1) != Some(&"ok") { cx.violation("C10", "cold-start/first-call-failed".into(), format!("thread {i} of {n}: {l}")); continue; }
            if i % 2 == 1 { if f.get(3) != Some(&"true") { cx.violation("C10", "cold-start/random-path-not-fine".into(), l.to_string()); } continue; }
            let ikm = bytes_for(seed, b"cold-ikm", i, 32);
            let msgs = vec![bytes_for(seed, b"cold-m", i, 7)];
            use group::Curve;
            let want = (|| { let sk = rm::keygen(suite, &ikm, &[], None)?; let pk = rm::sk_to_pk(&sk); let sig = rm::sign(suite, &sk, &pk, b"cold", &msgs)?; let g: Vec<u8> = rm::create_generators(suite, 3, &[])?.iter().flat_map(|p| p.to_affine().to_compressed()).collect(); Ok::<_, &'static str>(format!("{} {} {} true {}", hex::encode(sk.to_be_bytes()), hex::encode(pk), hex::encode(sig.to_bytes()), hex::encode(g))) })();
            let got = f[2..].join(" ");
            match want { Ok(w) if w == got => cx.count("verdict.MustAccept.accept"), other => cx.violation("C10", "cold-start/differs-from-model".into(), format!("thread {i} of {n}: library {got} vs model {other:?}")) }
        }
    });
    cx.run();
}

/// C12: four issuers (different keys, both suites) serving update requests AT THE SAME TIME, 24
/// each; every updated signature must verify for the vector it was made for and must not verify
/// for the previous one.
pub fn update_burst(cx: &mut Cx) {
    let nodes = burst_nodes(cx, 4);
    let seed = cx.run_seed;
    cx.count("probe.concurrent_update_requests");
    let same_suite = cx.ch.chance("burst_same_suite", 1, 2);
    let steps: Vec<(NodeId, Box<dyn FnOnce() -> Vec<String> + Send>)> = nodes.iter().enumerate().map(|(i, &n)| {
        let suite = Suite::from_idx(if same_suite { 0 } else { i as u64 });
        let f: Box<dyn FnOnce() -> Vec<String> + Send> = Box::new(move || {
            let mut bad = Vec::new();
            let r: Result<(), String> = (|| {
                let (sk, pk) = api::keygen(suite, &bytes_for(seed, b"ub-ikm", i as u64, 32), None, None)?;
                let mut msgs: Vec<Bytes> = (0..3).map(|j| bytes_for(seed, b"ub-m", (i * 10 + j) as u64, 6)).collect();
                let hd = Some(b"ub".to_vec());
                let mut sig = api::sign(suite, &sk, &pk, &hd, &Some(msgs.clone()))?;
                for k in 0..24usize {
                    let pos = k % 3;
                    let new = bytes_for(seed, b"ub-new", (i * 100 + k) as u64, 5 + k % 4);
                    let up = match api::update(suite, &sk, &sig, &msgs[pos], &new, pos, 3) { Ok(u) => u, Err(e) => { bad.push(format!("update {k}: refused: {e}")); continue; } };
                    let prev = msgs.clone();
                    msgs[pos] = new;
                    if !api::verify(suite, &pk, &up, &hd, &Some(msgs.clone())).accepted() { bad.push(format!("update {k}: the updated signature does not verify for the current vector")); }
                    if api::verify(suite, &pk, &up, &hd, &Some(prev)).accepted() { bad.push(format!("update {k}: the updated signature still verifies for the previous vector")); }
                    sig = up;
                }
                Ok(())
            })();
            if let Err(e) = r { bad.push(e); }
            bad
        });
        (n, f)
    }).collect();
    cx.burst(steps, "24 updates each", move |cx, outs| {
        for (i, st) in outs.into_iter().enumerate() {
            cx.eval(&[b"update-burst", &(i as u64).to_le_bytes(), &seed.to_le_bytes()], true);
            cx.count("fault.concurrent_calls");
            match st.out { Ok(bad) if bad.is_empty() => cx.count("verdict.MustAccept.accept"), other => cx.violation("C12", "concurrent/update-results-wrong".into(), format!("issuer {i} of 4 serving 24 updates while the others do the same: {:?}", other.map(|b| b.into_iter().take(3).collect::<Vec<_>>()))) }
        }
    });
    cx.run();
}
