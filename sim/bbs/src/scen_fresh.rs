//! C07: K holder threads x n generations each, on identical inputs, interleaved by the
//! scheduler, with crash-restart (fresh TLS, fresh thread_rng) and entropy faults in between.
//! The wire monitor knows every witness and recomputes the blinding values of every
//! transcript; over the whole history they must be non-zero, high-entropy and pairwise
//! distinct, group elements and responses must never repeat, and no window of a proof may
//! equal a hidden scalar, A or e.
use crate::api::{self, Bytes, Suite};
use crate::common::*;
use crate::refmodel as rm;
use bls12_381_plus::Scalar;
use std::cell::RefCell;
use std::collections::BTreeMap;
use std::rc::Rc;
use zksim_core::prng::bytes_for;
use zksim_core::sim::{Cx, NodeId, StepOpts};

#[derive(Default)]
struct History {
    /// value -> where it was first seen
    scalars: BTreeMap<[u8; 32], String>,
    points: BTreeMap<Vec<u8>, String>,
    transcripts: u64,
    /// leading octet of every FRESH value (blinders, blind factors, random keys) of the run
    fresh_tops: Vec<u8>,
}

/// fresh values are uniform in [0, r), r = 0x73ed...: 45% of them have a leading octet >= 0x40.
/// A source confined to a sub-range (a draw of 254 bits, a reduction that drops the top) never
/// produces one; 64 uniform values all below 2^254 have probability 0.552^64 < 2^-54
fn check_range_coverage(cx: &mut Cx, h: &History, origin: &str) {
    let n = h.fresh_tops.len();
    if n < 64 { return; }
    cx.count("n.range_coverage_tests");
    if !h.fresh_tops.iter().any(|&t| t >= 0x40) {
        cx.violation("C07", "range/no-fresh-value-at-or-above-2^254".into(), format!("{origin}: none of {n} fresh blinding values reaches 2^254 (45% of uniform scalars do; probability < 2^-54): the source does not cover Z_r"));
    }
}

fn see_scalar(cx: &mut Cx, h: &mut History, kind: &str, s: &Scalar, origin: String) {
    let b = s.to_be_bytes();
    cx.count("n.blinding_values_checked");
    if b == [0u8; 32] {
        cx.violation("C07", format!("zero/{kind}"), format!("{origin}: {kind} is zero"));
        return;
    }
    if matches!(kind, "e~" | "m~" | "cm~" | "s~" | "secret_prover_blind" | "BlindFactor::random") { h.fresh_tops.push(b[0]); }
    if b[..12] == [0u8; 12] {
        cx.violation("C07", format!("low-entropy/{kind}"), format!("{origin}: {kind} = {} is below 2^160 (probability 2^-94 for a uniform scalar)", hex::encode(b)));
    }
    if let Some(prev) = h.scalars.insert(b, format!("{origin}:{kind}")) {
        let pk = prev.rsplit(':').next().unwrap_or("").to_string();
        cx.violation("C07", format!("repeat/{}", if pk == kind { kind.to_string() } else { format!("{pk}={kind}") }), format!("{origin}: {kind} = {} was already produced as {prev}", hex::encode(b)));
    }
}
fn see_point(cx: &mut Cx, h: &mut History, kind: &str, p: &[u8], origin: String) {
    cx.count("n.group_elements_checked");
    if let Some(prev) = h.points.insert(p.to_vec(), format!("{origin}:{kind}")) {
        let pk = prev.rsplit(':').next().unwrap_or("").to_string();
        cx.violation("C07", format!("repeat/{}", if pk == kind { kind.to_string() } else { format!("{pk}={kind}") }), format!("{origin}: {kind} = {} was already produced as {prev}", hex::encode(p)));
    }
}

#[derive(Clone)]
struct Inputs {
    suite: Suite,
    pk: Bytes,
    sig: Bytes,
    bsig: Bytes,
    /// a blind signature issued WITHOUT any commitment (the blind slot holds the scalar 0)
    bsig0: Bytes,
    header: Option<Bytes>,
    msgs: Vec<Bytes>,
    committed: Vec<Bytes>,
    cwp: Bytes,
    blind: Bytes,
}

/// One run in 16: VOLUME.  Mass draws from the two public sources of blinding values on four
/// threads at once; none may be zero and no two may be equal.  A birthday test: it notices a
/// source whose values carry less than ~40 bits of entropy, or that returns a fixed value once
/// in ~10^5 draws -- defects that no few-hundred-transcript history can see.
fn volume(cx: &mut Cx) {
    let (batches, factors) = if cx.thorough { (400_000usize, 2_000_000usize) } else { (150_000, 500_000) };
    let nodes: Vec<NodeId> = (0..4).map(|i| cx.node(&format!("drawer{i}"))).collect();
    cx.count("probe.volume_draws");
    type Out = (Vec<[u8; 32]>, Vec<[u8; 32]>, u64, u64);
    let steps: Vec<(NodeId, Box<dyn FnOnce() -> Out + Send>)> = nodes.iter().map(|&n| {
        let f: Box<dyn FnOnce() -> Out + Send> = Box::new(move || {
            let mut zero_a = 0u64; let mut zero_b = 0u64;
            #[cfg(feature = "library-helpers")]
            let a: Vec<[u8; 32]> = { use zkryptium::utils::util::bbsplus_utils::calculate_random_scalars; (0..batches / 4).map(|_| { let v = calculate_random_scalars(3); let b = v[0].to_be_bytes(); if v.iter().any(|x| x.to_be_bytes() == [0u8; 32]) { zero_a += 1; } b }).collect() };
            // (engine built without the library-helpers feature: only the public BlindFactor::random is drawn from)
            #[cfg(not(feature = "library-helpers"))]
            let a: Vec<[u8; 32]> = { let _ = batches; Vec::new() };
            let b: Vec<[u8; 32]> = (0..factors / 4).map(|_| { let x = zkryptium::bbsplus::commitment::BlindFactor::random().to_bytes(); if x == [0u8; 32] { zero_b += 1; } x }).collect();
            (a, b, zero_a, zero_b)
        });
        (n, f)
    }).collect();
    cx.burst(steps, "mass-draws", move |cx, outs| {
        let mut all_a: Vec<[u8; 32]> = Vec::new(); let mut all_b: Vec<[u8; 32]> = Vec::new();
        let (mut za, mut zb) = (0u64, 0u64);
        for st in outs { match st.out { Ok((a, b, x, y)) => { all_a.extend(a); all_b.extend(b); za += x; zb += y; } Err(c) => cx.violation("C07", "volume/crash".into(), format!("{c:?}")) } }
        cx.add("n.blinding_values_checked", (all_a.len() + all_b.len()) as u64);
        cx.eval(&[b"volume", &(all_a.len() as u64).to_le_bytes(), &(all_b.len() as u64).to_le_bytes()], true);
        if za > 0 { cx.violation("C07", "zero/calculate_random_scalars".into(), format!("{za} batches of random scalars contain a zero")); }
        if zb > 0 { cx.violation("C07", "zero/BlindFactor::random".into(), format!("{zb} of {} random blind factors are zero", all_b.len())); }
        for (name, mut v) in [("calculate_random_scalars", all_a), ("BlindFactor::random", all_b)] {
            let n = v.len();
            // coverage of Z_r: among >= 10^5 uniform draws every leading octet 0x00..=0x73 occurs
            // (each with probability about 1/116; a miss has probability < e^-800)
            let mut tops = [false; 256];
            for x in &v { tops[x[0] as usize] = true; }
            let missing: Vec<String> = (0u8..=0x73).filter(|t| !tops[*t as usize]).map(|t| format!("{t:#04x}")).collect();
            cx.count("n.range_coverage_tests");
            if !missing.is_empty() { cx.violation("C07", format!("range/volume/{name}"), format!("no draw among {n} begins with {}: the source does not cover Z_r", missing.join(", "))); }
            v.sort_unstable(); v.dedup();
            if v.len() != n { cx.violation("C07", format!("repeat/volume/{name}"), format!("{} of {n} draws repeat an earlier one (a uniform 255-bit source repeats with probability < 2^-200)", n - v.len())); }
        }
    });
    cx.run();
}

pub fn run_c07(cx: &mut Cx) {
    if cx.run_index % 16 == 7 { return volume(cx); }
    cx.preemptions_left = cx.ch.choose("preemptions", 5) as u32;
    let suite = gen_suite(cx);
    // mostly small credentials; sometimes one generation needs more than 32 / 64 random scalars
    let big = cx.ch.weighted("big_shape", &[6, 1, 1]);
    let l = if big == 1 { 30 + cx.ch.choose("L_big", 45) as usize } else { 1 + cx.ch.choose("L", 5) as usize };
    let m = if big == 2 { 31 + cx.ch.choose("M_big", 40) as usize } else { cx.ch.choose("M", 3) as usize };
    if big == 1 { cx.count("probe.proof_with_more_than_32_random_scalars"); }
    if big == 2 { cx.count("probe.commitment_with_more_than_32_random_scalars"); }
    let k = 2 + cx.ch.choose("holders", 5) as usize;
    let issuer = cx.node("issuer");
    let holders: Vec<NodeId> = (0..k).map(|i| cx.node(&format!("holder{i}"))).collect();
    let seed = cx.run_seed;
    let hist = Rc::new(RefCell::new(History::default()));
    let first_op = cx.ch.choose("common_first_op", 6);
    let hist_outer = hist.clone();
    let inp_outer: Rc<RefCell<Option<Rc<Inputs>>>> = Rc::new(RefCell::new(None));
    let inp_slot = inp_outer.clone();
    cx.step(issuer, "issue", StepOpts::default(), move || {
        let (sk, pk) = api::keygen(suite, &bytes_for(seed, b"ikm", 0, 32), None, None)?;
        let header = Some(bytes_for(seed, b"hdr", 0, 5));
        let msgs: Vec<Bytes> = (0..l).map(|i| bytes_for(seed, b"m", i as u64, 8)).collect();
        let committed: Vec<Bytes> = (0..m).map(|i| bytes_for(seed, b"cm", i as u64, 8)).collect();
        let sig = api::sign(suite, &sk, &pk, &header, &Some(msgs.clone()))?;
        let (cwp, blind) = api::commit(suite, &Some(committed.clone()))?;
        let bsig = api::blind_sign(suite, &sk, &pk, &Some(cwp.clone()), &header, &Some(msgs.clone()))?;
        let bsig0 = api::blind_sign(suite, &sk, &pk, &None, &header, &Some(msgs.clone()))?;
        Ok::<_, String>(Inputs { suite, pk, sig, bsig, bsig0, header, msgs, committed, cwp, blind })
    }, move |cx, st| {
        let inp = match st.out { Ok(Ok(i)) => Rc::new(i), other => { cx.log(format!("issuance failed: {:?}", other.err())); return; } };
        // the issuance commitment is itself a transcript
        inspect_commit(cx, &mut hist.borrow_mut(), &inp, &inp.cwp, &inp.blind, &inp.committed, "issuer-side commit".into());
        *inp_slot.borrow_mut() = Some(inp.clone());
        for (hi, &h) in holders.iter().enumerate() {
            let n = 2 + cx.ch.choose("generations", 5);
            for g in 0..n {
                let op = if g == 0 { first_op } else { cx.ch.choose("op", 6) };
                if g > 0 && cx.ch.chance("restart_holder", 1, 4) { cx.restart(h); }
                generation(cx, h, hi, g, op, inp.clone(), hist.clone());
            }
        }
    });
    cx.run();
    let inp = inp_outer.borrow().clone();
    if let (Some(inp), true) = (inp, cx.ch.chance("concurrent_burst", 1, 4)) { burst(cx, inp, hist_outer.clone()); }
    let t = hist_outer.borrow().transcripts;
    cx.add("n.transcripts", t);
    check_range_coverage(cx, &hist_outer.borrow(), "whole run");
}

fn generation(cx: &mut Cx, h: NodeId, hi: usize, g: u64, op: u64, inp: Rc<Inputs>, hist: Rc<RefCell<History>>) {
    let opts = StepOpts { eintr: if cx.ch.chance("eintr", 1, 8) { 1 } else { 0 }, short_reads: if cx.ch.chance("short_read", 1, 8) { 1 } else { 0 }, ..Default::default() };
    let origin = format!("holder{hi}/gen{g}");
    let suite = inp.suite;
    let l = inp.msgs.len();
    let m = inp.committed.len();
    // same inputs for everybody: same disclosure set too
    let didx: Vec<usize> = if l > 20 { vec![1] } else { (0..l).filter(|i| i % 2 == 1).collect() };
    let dcidx: Vec<usize> = if m > 20 { vec![0] } else { (0..m).filter(|i| i % 2 == 1).collect() };
    match op {
        0 | 1 => {
            let (pk, sig, hd, ms, d) = (inp.pk.clone(), inp.sig.clone(), inp.header.clone(), inp.msgs.clone(), didx.clone());
            cx.step(h, "proof_gen", opts, move || api::proof_gen(suite, &pk, &sig, &hd, &Some(b"nonce".to_vec()), &Some(ms), &Some(d)), move |cx, st| {
                let Ok(Ok(p)) = st.out else { cx.log(format!("{origin}: proof_gen failed (C03's business)")); return; };
                cx.eval(&[b"proof", &p], true);
                let api_id = rm::api_id(suite, false);
                let ms = rm::messages_to_scalars(suite, &inp.msgs, &api_id).unwrap();
                inspect_proof(cx, &mut hist.borrow_mut(), &p, &inp.sig, &ms, &didx, origin);
            });
        }
        2 => {
            let (pk, sig, hd, ms, cm, d, dc, bl) = (inp.pk.clone(), inp.bsig.clone(), inp.header.clone(), inp.msgs.clone(), inp.committed.clone(), didx.clone(), dcidx.clone(), inp.blind.clone());
            cx.step(h, "blind_proof_gen", opts, move || api::blind_proof_gen(suite, &pk, &sig, &hd, &None, &Some(ms), &Some(cm), &Some(d), &Some(dc), &Some(bl)), move |cx, st| {
                let Ok(Ok(p)) = st.out else { cx.log(format!("{origin}: blind_proof_gen failed (C05's business)")); return; };
                cx.eval(&[b"bproof", &p], true);
                let blind = rm::octets_to_scalar(&inp.blind).unwrap();
                let (_, vec) = rm::blind_vector(suite, &inp.msgs, &inp.committed, &blind).unwrap();
                let mut idx = didx.clone();
                idx.extend(dcidx.iter().map(|j| j + l + 1));
                inspect_proof(cx, &mut hist.borrow_mut(), &p, &inp.bsig, &vec, &idx, origin);
            });
        }
        5 => {
            // a presentation of the blind signature that was issued without a commitment, by a
            // holder with no prover blind: the blind slot (position L) holds the scalar 0 and is
            // always hidden -- its blinder is as fresh and as non-zero as every other
            cx.count("probe.presentation_of_a_blind_signature_without_commitment");
            let (pk, sig, hd, ms, d) = (inp.pk.clone(), inp.bsig0.clone(), inp.header.clone(), inp.msgs.clone(), didx.clone());
            cx.step(h, "blind_proof_gen(no commitment, no prover blind)", opts, move || api::blind_proof_gen(suite, &pk, &sig, &hd, &None, &Some(ms), &None, &Some(d), &None, &None), move |cx, st| {
                let Ok(Ok(p)) = st.out else { cx.log(format!("{origin}: blind_proof_gen failed (C05's business)")); return; };
                cx.eval(&[b"bproof0", &p], true);
                let (_, vec) = rm::blind_vector(suite, &inp.msgs, &[], &Scalar::ZERO).unwrap();
                inspect_proof(cx, &mut hist.borrow_mut(), &p, &inp.bsig0, &vec, &didx, origin);
            });
        }
        3 => {
            let cm = inp.committed.clone();
            let absent = cm.is_empty() && cx.ch.chance("commit_absent_list", 1, 2);
            if absent { cx.count("probe.commit_with_absent_list"); }
            cx.step(h, "commit", opts, move || api::commit(suite, &if absent { None } else { Some(cm) }), move |cx, st| {
                let Ok(Ok((cwp, blind))) = st.out else { cx.log(format!("{origin}: commit failed (C05's business)")); return; };
                cx.eval(&[b"commit", &cwp], true);
                inspect_commit(cx, &mut hist.borrow_mut(), &inp, &cwp, &blind, &inp.committed, origin);
            });
        }
        _ => {
            cx.step(h, "random_key+blind_factor", opts, move || {
                let k = api::keygen_random(suite)?;
                let b = zkryptium::bbsplus::commitment::BlindFactor::random().to_bytes().to_vec();
                Ok::<_, String>((k.0, k.1, b))
            }, move |cx, st| {
                let Ok(Ok((sk, pk, bf))) = st.out else { cx.log(format!("{origin}: random key failed")); return; };
                cx.eval(&[b"randkey", &sk], true);
                let mut hh = hist.borrow_mut();
                hh.transcripts += 1;
                if let Ok(s) = rm::octets_to_scalar(&sk) { see_scalar(cx, &mut hh, "random-sk", &s, origin.clone()); }
                see_point(cx, &mut hh, "random-pk", &pk, origin.clone());
                if let Ok(s) = rm::octets_to_scalar(&bf) { see_scalar(cx, &mut hh, "BlindFactor::random", &s, origin); }
            });
        }
    }
}

/// `vector` = the full scalar message vector the signature is over; `didx` = disclosed positions
fn inspect_proof(cx: &mut Cx, h: &mut History, proof: &[u8], sig: &[u8], vector: &[Scalar], didx: &[usize], origin: String) {
    h.transcripts += 1;
    let Ok(p) = rm::octets_to_proof(proof, false) else { cx.violation("C07", "unparsable-proof".into(), format!("{origin}: {}", hex::encode(proof))); return; };
    let Ok(sg) = rm::octets_to_signature(sig) else { return };
    see_point(cx, h, "Abar", &proof[0..48], origin.clone());
    see_point(cx, h, "Bbar", &proof[48..96], origin.clone());
    see_point(cx, h, "D", &proof[96..144], origin.clone());
    // blinding values a witness holder can recompute
    see_scalar(cx, h, "e~", &(p.e_cap - sg.e * p.c), origin.clone());
    let und: Vec<usize> = (0..vector.len()).filter(|j| !didx.contains(j)).collect();
    if und.len() != p.m_cap.len() { cx.violation("C07", "response-count".into(), format!("{origin}: {} responses for {} hidden messages", p.m_cap.len(), und.len())); return; }
    for (k, j) in und.iter().enumerate() { see_scalar(cx, h, "m~", &(p.m_cap[k] - vector[*j] * p.c), format!("{origin}/j={j}")); }
    // responses themselves must not repeat either
    see_scalar(cx, h, "e^", &p.e_cap, origin.clone());
    see_scalar(cx, h, "r1^", &p.r1_cap, origin.clone());
    see_scalar(cx, h, "r3^", &p.r3_cap, origin.clone());
    // (a hidden slot that holds the scalar 0 -- the blind slot without a prover blind -- has m^ = m~, already recorded)
    for (k, x) in p.m_cap.iter().enumerate() { if vector[und[k]] == Scalar::ZERO { continue; } see_scalar(cx, h, "m^", x, format!("{origin}/k={k}")); }
    // nothing secret in clear anywhere in the octets
    let secrets32: Vec<([u8; 32], String)> = und.iter().map(|&j| (vector[j].to_be_bytes(), format!("hidden message scalar {j}"))).chain([(sg.e.to_be_bytes(), "signature exponent e".to_string())]).collect();
    for w in 0..=proof.len().saturating_sub(32) {
        for (s, name) in &secrets32 { if &proof[w..w + 32] == s { cx.violation("C07", "secret-in-clear/scalar".into(), format!("{origin}: octets {w}..{} of the proof equal the {name}", w + 32)); } }
    }
    for w in 0..=proof.len().saturating_sub(48) {
        if proof[w..w + 48] == sig[..48] { cx.violation("C07", "secret-in-clear/A".into(), format!("{origin}: octets {w}..{} of the proof equal the signature point A", w + 48)); }
    }
    cx.count("n.window_scans");
}

fn inspect_commit(cx: &mut Cx, h: &mut History, inp: &Inputs, cwp: &[u8], blind: &[u8], committed: &[Bytes], origin: String) {
    h.transcripts += 1;
    let Ok(cp) = rm::octets_to_commitment(cwp) else { cx.violation("C07", "unparsable-commitment".into(), origin); return; };
    let Ok(b) = rm::octets_to_scalar(blind) else { return };
    let api_id = rm::api_id(inp.suite, true);
    let ms = rm::messages_to_scalars(inp.suite, committed, &api_id).unwrap();
    see_point(cx, h, "commitment", &cwp[..48], origin.clone());
    see_scalar(cx, h, "secret_prover_blind", &b, origin.clone());
    see_scalar(cx, h, "s~", &(cp.s_cap - b * cp.chal), origin.clone());
    if ms.len() == cp.m_cap.len() {
        for (i, x) in cp.m_cap.iter().enumerate() { see_scalar(cx, h, "cm~", &(*x - ms[i] * cp.chal), format!("{origin}/i={i}")); }
    }
    see_scalar(cx, h, "s^", &cp.s_cap, origin.clone());
    for w in 0..=cwp.len().saturating_sub(32) {
        if cwp[w..w + 32] == blind[..] { cx.violation("C07", "secret-in-clear/blind-factor".into(), format!("{origin}: octets {w}.. of the commitment-with-proof equal the blind factor")); }
        for (i, m) in ms.iter().enumerate() { if cwp[w..w + 32] == m.to_be_bytes() { cx.violation("C07", "secret-in-clear/committed-message".into(), format!("{origin}: octets {w}.. equal committed message scalar {i}")); } }
    }
}

/// Free-running burst: several holders draw randomness AT THE SAME TIME (random keys, blind
/// factors, commitments, presentations on identical inputs, several rounds each without
/// returning to the scheduler).  Same history monitor as the serial part of the run.
fn burst(cx: &mut Cx, inp: Rc<Inputs>, hist: Rc<RefCell<History>>) {
    let k = 3 + cx.ch.choose("burst_holders", 4) as usize;
    let rounds = 2 + cx.ch.choose("burst_rounds", 5) as usize;
    let nodes: Vec<NodeId> = (0..k).map(|i| cx.node(&format!("burst{i}"))).collect();
    let l = inp.msgs.len();
    let m = inp.committed.len();
    let didx: Vec<usize> = if l > 20 { vec![1] } else { (0..l).filter(|i| i % 2 == 1).collect() };
    let dcidx: Vec<usize> = if m > 20 { vec![0] } else { (0..m).filter(|i| i % 2 == 1).collect() };
    type Round = (Result<(Bytes, Bytes), String>, Bytes, Result<(Bytes, Bytes), String>, Result<Bytes, String>, Result<Bytes, String>);
    let steps: Vec<(NodeId, Box<dyn FnOnce() -> Vec<Round> + Send>)> = nodes.iter().map(|&n| {
        let i: Inputs = (*inp).clone();
        let (d, dc) = (didx.clone(), dcidx.clone());
        let f: Box<dyn FnOnce() -> Vec<Round> + Send> = Box::new(move || (0..rounds).map(|_| {
            let key = api::keygen_random(i.suite);
            let bf = zkryptium::bbsplus::commitment::BlindFactor::random().to_bytes().to_vec();
            let c = api::commit(i.suite, &Some(i.committed.clone()));
            let p = api::proof_gen(i.suite, &i.pk, &i.sig, &i.header, &Some(b"nonce".to_vec()), &Some(i.msgs.clone()), &Some(d.clone()));
            let bp = api::blind_proof_gen(i.suite, &i.pk, &i.bsig, &i.header, &None, &Some(i.msgs.clone()), &Some(i.committed.clone()), &Some(d.clone()), &Some(dc.clone()), &Some(i.blind.clone()));
            (key, bf, c, p, bp)
        }).collect());
        (n, f)
    }).collect();
    cx.count("probe.concurrent_burst");
    cx.burst(steps, "draw-concurrently", move |cx, outs| {
        let suite = inp.suite;
        let api_id = rm::api_id(suite, false);
        let ms = rm::messages_to_scalars(suite, &inp.msgs, &api_id).unwrap();
        let blind = rm::octets_to_scalar(&inp.blind).unwrap();
        let (_, vec) = rm::blind_vector(suite, &inp.msgs, &inp.committed, &blind).unwrap();
        let mut bidx = didx.clone();
        bidx.extend(dcidx.iter().map(|j| j + l + 1));
        let mut hh = hist.borrow_mut();
        for (ni, st) in outs.into_iter().enumerate() {
            let Ok(rounds) = st.out else { cx.violation("C07", "concurrent/crash".into(), format!("burst{ni} crashed while drawing concurrently")); continue; };
            for (r, (key, bf, c, p, bp)) in rounds.into_iter().enumerate() {
                let origin = format!("burst{ni}/round{r}");
                cx.eval(&[b"burst", origin.as_bytes()], true);
                cx.count("fault.concurrent_calls");
                match key {
                    Ok((sk, pk)) => {
                        hh.transcripts += 1;
                        if let Ok(s) = rm::octets_to_scalar(&sk) { see_scalar(cx, &mut hh, "random-sk", &s, origin.clone()); }
                        see_point(cx, &mut hh, "random-pk", &pk, origin.clone());
                    }
                    Err(e) => cx.violation("C07", "concurrent/random-key-failed".into(), format!("{origin}: {e}")),
                }
                match rm::octets_to_scalar(&bf) { Ok(s) => see_scalar(cx, &mut hh, "BlindFactor::random", &s, origin.clone()), Err(_) => cx.violation("C07", "zero/BlindFactor::random".into(), format!("{origin}: BlindFactor::random = {}", hex::encode(&bf))) }
                match c { Ok((cwp, b)) => inspect_commit(cx, &mut hh, &inp, &cwp, &b, &inp.committed, origin.clone()), Err(e) => cx.violation("C07", "concurrent/commit-failed".into(), format!("{origin}: {e}")) }
                match p { Ok(p) => inspect_proof(cx, &mut hh, &p, &inp.sig, &ms, &didx, origin.clone()), Err(e) => cx.violation("C07", "concurrent/proof_gen-failed".into(), format!("{origin}: {e}")) }
                match bp { Ok(p) => inspect_proof(cx, &mut hh, &p, &inp.bsig, &vec, &bidx, origin.clone()), Err(e) => cx.violation("C07", "concurrent/blind_proof_gen-failed".into(), format!("{origin}: {e}")) }
            }
        }
    });
    cx.run();
}
