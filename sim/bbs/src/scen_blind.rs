//! C05 (blind issuance + presentation completeness over every small shape and disclosure
//! pair, production randomness, durable blind factor) and C06 (the issuer refuses every
//! request that is not an honest one; blind artefacts are bound to their statement).
use crate::api::{self, Bytes, Opt, OptIdx, OptList, Suite};
use crate::common::*;
use crate::refmodel as rm;
use bls12_381_plus::Scalar;
use std::cell::RefCell;
use std::collections::BTreeMap;
use std::rc::Rc;
use zksim_core::prng::bytes_for;
use zksim_core::sim::{Cx, NodeId, StepOpts};
use zksim_core::wire::{flip, int_corruptions, norm, ListFault, OctFault};

type Shared = Rc<RefCell<Ideal>>;
#[derive(Clone, Copy, PartialEq, Eq)]
enum Mode { Complete, Sound }

pub fn run_c05(cx: &mut Cx) { run(cx, Mode::Complete) }
pub fn run_c06(cx: &mut Cx) { run(cx, Mode::Sound) }

#[derive(Clone, Debug)]
struct Sess {
    suite: Suite,
    sk: Bytes,
    pk: Bytes,
    header: Opt,
    ph: Opt,
    msgs: OptList,
    committed: OptList,
    /// false: issuance without any commitment
    with_commitment: bool,
    didx: Vec<usize>,
    dcidx: Vec<usize>,
}

/// the 321 (L, M, disclosure mask pair) combinations with L + M <= 5
fn small_combo(k: u64) -> (usize, usize, u64, u64) {
    let mut k = k % 321;
    for l in 0..=5usize {
        for m in 0..=(5 - l) {
            let n = 1u64 << (l + m);
            if k < n { return (l, m, k & ((1 << l) - 1), k >> l); }
            k -= n;
        }
    }
    unreachable!()
}

fn run(cx: &mut Cx, mode: Mode) {
    cx.preemptions_left = cx.ch.choose("preemptions", 5) as u32;
    let ideal: Shared = Rc::new(RefCell::new(Ideal::default()));
    let issuer = cx.node("issuer");
    let holder = cx.node("holder");
    let verifier = cx.node("verifier");
    // key and header are shared by the sessions of a run (a holder presenting several credentials
    // of one issuer); shapes differ
    let header = gen_octets(cx, "header", 1);
    let (ikm, info) = gen_key_material(cx, 0);
    let n_sessions = if mode == Mode::Complete { 1 + cx.ch.choose("sessions", 2) } else { 1 };
    let mut specs = Vec::new();
    for s in 0..n_sessions {
        // workload: stride 37 is coprime to 642, so any 642 consecutive runs enumerate every
        // combination and a short batch still sees a spread of shapes
        // (1 session in 6 leaves the table for the sizes around 32 / 64 / 128 committed messages)
        let edge_run = mode == Mode::Sound && cx.run_index % 4 == 3;
        let off_table = edge_run || cx.ch.chance("shape_off_table", 1, 6);
        let enumerated = (mode == Mode::Complete && cx.run_index < 642 && s == 0 || mode == Mode::Sound) && !off_table;
        let (suite, l, m, dmask, dcmask) = if enumerated {
            let k = cx.ch.forced("small_combo", 642, cx.run_index.wrapping_mul(37));
            let (l, m, a, b) = small_combo(k);
            (Suite::from_idx(k / 321), l, m, Some(a), Some(b))
        } else {
            let su = gen_suite(cx);
            (su, gen_count(cx, "L", true).min(40), if edge_run { cx.count("probe.list_length_at_a_power_of_two_edge"); [128usize, 64, 32, 129, 33, 65, 127, 63, 31][cx.ch.forced("M_edge_forced", 9, cx.run_index / 4) as usize] } else if off_table && cx.ch.chance("M_at_an_edge", 2, 3) { [31usize, 32, 33, 63, 64, 65, 127, 128, 129][cx.ch.choose("M_edge", 9) as usize] } else { gen_count(cx, "M", true).min(130) }, None, None)
        };
        let msgs_v: Vec<Bytes> = (0..l).map(|i| gen_message(cx, 1000 * (s + 1) + i as u64)).collect();
        let cm_v: Vec<Bytes> = (0..m).map(|i| gen_message(cx, 2000 * (s + 1) + i as u64)).collect();
        let with_commitment = m > 0 || cx.ch.chance("commit_to_nothing", 1, 2);
        let didx: Vec<usize> = match dmask { Some(a) => (0..l).filter(|i| a >> i & 1 == 1).collect(), None => crate::scen_proof::gen_disclosure(cx, l, 1) };
        let dcidx: Vec<usize> = match dcmask { Some(b) => (0..m).filter(|i| b >> i & 1 == 1).collect(), None => crate::scen_proof::gen_disclosure(cx, m, 2) };
        let ph = gen_octets(cx, "ph", 2 + s);
        let msgs = as_optlist(cx, msgs_v);
        let committed = as_optlist(cx, cm_v);
        cx.log(format!("session {s}: suite={} L={l} M={m} commit={with_commitment} D={didx:?} DC={dcidx:?} header={} ph={}", suite.name(), opt_s(&header), opt_s(&ph)));
        cx.cell(format!("shape|{}|L{}|M{}|c{}", suite.name(), l.min(6), m.min(6), with_commitment as u8));
        if l == 0 { cx.count("probe.L=0"); }
        if m == 0 { cx.count("probe.M=0"); }
        if !with_commitment { cx.count("probe.issued_without_commitment"); }
        specs.push((suite, ph, msgs, committed, with_commitment, didx, dcidx));
    }
    if n_sessions > 1 { cx.count("probe.two_sessions_same_key_and_header"); }
    for (suite, ph, msgs, committed, with_commitment, didx, dcidx) in specs {
        let (ikm, info, header, ideal) = (ikm.clone(), info.clone(), header.clone(), ideal.clone());
        cx.step(issuer, "keygen", StepOpts::default(), move || api::keygen(suite, &ikm, info.as_deref(), None), move |cx, st| {
            let Ok(Ok((sk, pk))) = st.out else { cx.log("keygen failed (C01's business)".into()); return; };
            let s = Sess { suite, sk, pk, header, ph, msgs, committed, with_commitment, didx, dcidx };
            request(cx, mode, s, issuer, holder, verifier, ideal);
        });
    }
    cx.run();
    if mode == Mode::Complete && cx.ch.chance("concurrent_burst", 1, 8) { crate::scen_burst::proof_burst(cx, true); }
    if mode == Mode::Complete { crate::scen_sweep::blind(cx); }
}

#[allow(clippy::too_many_arguments)]
fn request(cx: &mut Cx, mode: Mode, s: Sess, issuer: NodeId, holder: NodeId, verifier: NodeId, ideal: Shared) {
    if !s.with_commitment {
        issue(cx, mode, s, None, None, issuer, holder, verifier, ideal, "none".into(), true);
        return;
    }
    let opts = StepOpts { eintr: if cx.ch.chance("eintr", 1, 6) { 2 } else { 0 }, short_reads: if cx.ch.chance("short_read", 1, 6) { 1 } else { 0 }, ..Default::default() };
    let (suite, cm) = (s.suite, s.committed.clone());
    cx.step(holder, "commit", opts, move || api::commit(suite, &cm), move |cx, st| {
        if st.ent.1 > 0 { cx.count("probe.commit_drew_fresh_entropy"); }
        let (cwp, blind) = match st.out {
            Ok(Ok(x)) => x,
            other => { cx.violation("C05", "commit/failed".into(), format!("{other:?} committed={}", list_s(&s.committed))); return; }
        };
        cx.eval(&[b"commit", &cwp], true);
        ideal.borrow_mut().register_commit(&cwp, s.suite, lnorm(&s.committed).to_vec());
        // holder crash between commit and receipt of the signature: the blind factor survives
        // only as the 32 octets in the wallet
        if cx.ch.chance("restart_holder_after_commit", 1, 3) { cx.restart(holder); cx.count("probe.holder_restart_between_commit_and_unblind"); }
        match mode {
            Mode::Complete => issue(cx, mode, s, Some(cwp), Some(blind), issuer, holder, verifier, ideal, "none".into(), true),
            Mode::Sound => {
                // honest request first (control + the rest of the session), then the faulted requests
                issue(cx, mode, s.clone(), Some(cwp.clone()), Some(blind.clone()), issuer, holder, verifier, ideal.clone(), "none".into(), true);
                bad_requests(cx, s, cwp, issuer, holder, ideal);
            }
        }
    });
}

/// the BlindRequest hop: the issuer signs (or refuses); `follow` = continue the session
#[allow(clippy::too_many_arguments)]
fn issue(cx: &mut Cx, mode: Mode, s: Sess, cwp: Opt, blind: Opt, issuer: NodeId, holder: NodeId, verifier: NodeId, ideal: Shared, fault: String, follow: bool) {
    let Some(item) = cx.item() else { return };
    cx.log(format!("item {item}: blind request {fault}"));
    let (s2, c2) = (s.clone(), cwp.clone());
    cx.step(issuer, "blind_sign", StepOpts::default(), move || api::blind_sign(s2.suite, &s2.sk, &s2.pk, &c2, &s2.header, &s2.msgs), move |cx, st| {
        cx.cur_item = Some(item);
        let verdict = ideal.borrow().judge_commit(s.suite, &cwp);
        let seen = match &st.out { Ok(Ok(_)) => Seen::Accept, Ok(Err(_)) => Seen::Reject, Err(c) => Seen::Crash(format!("{c:?}")) };
        cx.eval(&[b"blind_sign", s.suite.name().as_bytes(), norm(&cwp), &s.pk], true);
        settle(cx, "C05", "C06", "blind_sign", &fault, verdict, &seen, || format!("suite={} commitment_with_proof={} L={}", s.suite.name(), hex::encode(norm(&cwp)), lnorm(&s.msgs).len()));
        cx.cur_item = None;
        let Ok(Ok(bsig)) = st.out else { return };
        if !follow { return; }
        let zero = vec![0u8; 32];
        ideal.borrow_mut().register_sig(&bsig, SigStmt { suite: s.suite, blind_iface: true, pk: s.pk.clone(), header: s.header.clone().unwrap_or_default(), msgs: lnorm(&s.msgs).to_vec(), committed: if s.with_commitment { lnorm(&s.committed).to_vec() } else { vec![] }, blind: blind.clone().unwrap_or(zero) });
        receive(cx, mode, s, bsig, blind, issuer, holder, verifier, ideal);
    });
}

#[derive(Clone, Debug)]
struct BlindCred { suite: Suite, plain_endpoint: bool, pk: Bytes, sig: Bytes, header: Opt, msgs: OptList, committed: OptList, blind: Opt }

fn deliver_cred(cx: &mut Cx, holder: NodeId, f: BlindCred, fault: String, ideal: Shared) {
    let Some(item) = cx.item() else { return };
    cx.log(format!("item {item}: blind credential {fault}"));
    let f2 = f.clone();
    cx.step(holder, "verify_blind_sign", StepOpts::default(), move || {
        if f2.plain_endpoint { api::verify(f2.suite, &f2.pk, &f2.sig, &f2.header, &f2.msgs) } else { api::verify_blind(f2.suite, &f2.pk, &f2.sig, &f2.header, &f2.msgs, &f2.committed, &f2.blind) }
    }, move |cx, st| {
        cx.cur_item = Some(item);
        let verdict = if f.plain_endpoint { ideal.borrow().judge_sig(f.suite, false, &f.pk, &f.sig, &f.header, &f.msgs, &None, &None) } else { ideal.borrow().judge_sig(f.suite, true, &f.pk, &f.sig, &f.header, &f.msgs, &f.committed, &f.blind) };
        let seen = seen_of(&st.out);
        cx.eval(&[b"vbs", f.suite.name().as_bytes(), &[f.plain_endpoint as u8], &f.pk, &f.sig, norm(&f.header), &lnorm(&f.msgs).concat(), &(lnorm(&f.msgs).len() as u64).to_le_bytes(), &lnorm(&f.committed).concat(), &(lnorm(&f.committed).len() as u64).to_le_bytes(), norm(&f.blind)], seen != Seen::Boundary);
        settle(cx, "C05", "C06", if f.plain_endpoint { "verify" } else { "verify_blind_sign" }, &fault, verdict, &seen, || format!("suite={} sig={} header={} msgs={} committed={} blind={}", f.suite.name(), hexs(&f.sig), opt_s(&f.header), list_s(&f.msgs), list_s(&f.committed), opt_s(&f.blind)));
        cx.cur_item = None;
    });
}

#[allow(clippy::too_many_arguments)]
fn receive(cx: &mut Cx, mode: Mode, s: Sess, bsig: Bytes, blind: Opt, issuer: NodeId, holder: NodeId, verifier: NodeId, ideal: Shared) {
    let committed = if s.with_commitment { s.committed.clone() } else { None };
    let f = BlindCred { suite: s.suite, plain_endpoint: false, pk: s.pk.clone(), sig: bsig.clone(), header: s.header.clone(), msgs: s.msgs.clone(), committed: committed.clone(), blind: blind.clone() };
    // neutral presentation variants
    let mut g = f.clone();
    let mut fault = "none".to_string();
    if cx.ch.chance("opt_toggle_header", 1, 3) { OctFault::Toggle.apply(&mut g.header, 0); fault = "opt_toggle".into(); }
    if lnorm(&g.committed).is_empty() && cx.ch.chance("cm_toggle", 1, 2) { g.committed = if g.committed.is_none() { Some(vec![]) } else { None }; fault = "list_toggle".into(); }
    if !s.with_commitment && cx.ch.chance("explicit_zero_blind", 1, 3) { g.blind = Some(vec![0; 32]); fault = "absent_blind_as_zero".into(); }
    deliver_cred(cx, holder, g, fault, ideal.clone());
    if mode == Mode::Sound {
        // single edits of (committed msgs, signer msgs, blind factor, header, pk, signature)
        for (which, n) in [(0u8, lnorm(&f.committed).len()), (1, lnorm(&f.msgs).len())] {
            for lf in ListFault::pick(&mut cx.ch, n, 50, 20) {
                let mut g = f.clone();
                let tgt = if which == 0 { &mut g.committed } else { &mut g.msgs };
                let mut v = tgt.take().unwrap_or_default();
                lf.apply(&mut v, cx.run_seed);
                *tgt = Some(v);
                deliver_cred(cx, holder, g, format!("{}_{}", if which == 0 { "committed" } else { "msgs" }, lf.kind()), ideal.clone());
            }
        }
        if !lnorm(&f.msgs).is_empty() && !lnorm(&f.committed).is_empty() {
            // move a message across the signer/committed boundary
            let mut g = f.clone();
            let (mut a, mut b) = (g.msgs.take().unwrap(), g.committed.take().unwrap());
            let x = a.pop().unwrap(); b.insert(0, x);
            g.msgs = Some(a); g.committed = Some(b);
            deliver_cred(cx, holder, g, "message_moved_to_committed".into(), ideal.clone());
        }
        let bslice = cx.ch.forced("blind_bit_slice", 8, cx.run_index);
        for bit in (bslice * 32)..(bslice * 32 + 32) {
            let mut g = f.clone();
            let mut b = g.blind.take().unwrap_or(vec![0; 32]);
            flip(&mut b, bit as usize);
            g.blind = Some(b);
            deliver_cred(cx, holder, g, "blind_factor_bitflip".into(), ideal.clone());
        }
        { let mut g = f.clone(); g.blind = None; deliver_cred(cx, holder, g, "blind_factor_removed".into(), ideal.clone()); }
        for of in OctFault::all() { let mut g = f.clone(); of.apply(&mut g.header, cx.run_seed); deliver_cred(cx, holder, g, format!("header_{}", of.kind()), ideal.clone()); }
        let sslice = cx.ch.forced("sig_bit_slice", 16, cx.run_index / 8);
        for bit in (sslice * 40)..(sslice * 40 + 40) { let mut g = f.clone(); flip(&mut g.sig, bit as usize); deliver_cred(cx, holder, g, "sig_bitflip".into(), ideal.clone()); }
        for _ in 0..4 { let mut g = f.clone(); let bit = cx.ch.choose("pk_bit", 768) as usize; flip(&mut g.pk, bit); deliver_cred(cx, holder, g, "store_pk_bitflip".into(), ideal.clone()); }
        { let mut g = f.clone(); g.suite = f.suite.other(); deliver_cred(cx, holder, g, "misroute_suite".into(), ideal.clone()); }
        { let mut g = f.clone(); g.plain_endpoint = true; deliver_cred(cx, holder, g, "misroute_interface".into(), ideal.clone()); }
        // the reverse misroute: a PLAIN signature by the same key over the same header and messages,
        // offered at the blind endpoint without committed messages and without a blind factor (a
        // blind verifier with a "no extension on the signer's side" fallback takes it)
        {
            let (s5, f5, ideal5) = (s.clone(), f.clone(), ideal.clone());
            cx.step(issuer, "plain-sign", StepOpts::default(), move || api::sign(s5.suite, &s5.sk, &s5.pk, &s5.header, &s5.msgs), move |cx, st| {
                if let Ok(Ok(sig)) = st.out { let mut g = f5.clone(); g.sig = sig; g.committed = None; g.blind = None; cx.count("probe.plain_signature_at_the_blind_endpoint"); deliver_cred(cx, holder, g, "forged:plain_signature_at_the_blind_endpoint".into(), ideal5.clone()); }
            });
        }
        let ikm2 = bytes_for(cx.run_seed, b"ikm-other", 0, 32);
        let (f5, ideal5, suite) = (f.clone(), ideal.clone(), s.suite);
        cx.step(issuer, "keygen_other", StepOpts::default(), move || api::keygen(suite, &ikm2, None, None), move |cx, st| {
            if let Ok(Ok((_, pk2))) = st.out { let mut g = f5.clone(); g.pk = pk2; deliver_cred(cx, holder, g, "misroute_key".into(), ideal5.clone()); }
        });
    }
    present(cx, mode, s, bsig, blind, holder, verifier, ideal);
}

#[derive(Clone, Debug)]
struct BlindPres { suite: Suite, plain_endpoint: bool, pk: Bytes, proof: Bytes, header: Opt, ph: Opt, l: Option<usize>, dmsgs: OptList, dcmsgs: OptList, didx: OptIdx, dcidx: OptIdx }

fn deliver_pres(cx: &mut Cx, verifier: NodeId, f: BlindPres, fault: String, ideal: Shared) {
    let Some(item) = cx.item() else { return };
    cx.log(format!("item {item}: blind presentation {fault}"));
    let f2 = f.clone();
    cx.step(verifier, "blind_proof_verify", StepOpts::default(), move || {
        if f2.plain_endpoint { api::proof_verify(f2.suite, &f2.pk, &f2.proof, &f2.header, &f2.ph, &f2.dmsgs, &f2.didx) } else { api::blind_proof_verify(f2.suite, &f2.pk, &f2.proof, &f2.header, &f2.ph, f2.l, &f2.dmsgs, &f2.dcmsgs, &f2.didx, &f2.dcidx) }
    }, move |cx, st| {
        cx.cur_item = Some(item);
        let verdict = if f.plain_endpoint { ideal.borrow().judge_proof(f.suite, false, &f.pk, &f.proof, &f.header, &f.ph, None, &f.dmsgs, &f.didx, &None, &None) } else { ideal.borrow().judge_proof(f.suite, true, &f.pk, &f.proof, &f.header, &f.ph, f.l, &f.dmsgs, &f.didx, &f.dcmsgs, &f.dcidx) };
        let seen = seen_of(&st.out);
        let ib: Vec<u8> = inorm(&f.didx).iter().chain(inorm(&f.dcidx)).flat_map(|i| i.to_le_bytes()).collect();
        cx.eval(&[b"bpv", f.suite.name().as_bytes(), &[f.plain_endpoint as u8], &f.pk, &f.proof, norm(&f.header), norm(&f.ph), &(f.l.map(|x| x as u64 + 1).unwrap_or(0)).to_le_bytes(), &lnorm(&f.dmsgs).concat(), &lnorm(&f.dcmsgs).concat(), &ib], true);
        settle(cx, "C05", "C06", if f.plain_endpoint { "proof_verify" } else { "blind_proof_verify" }, &fault, verdict, &seen, || format!("suite={} proof={} header={} ph={} L={:?} D={:?} msgs={} DC={:?} cmsgs={}", f.suite.name(), hexs(&f.proof), opt_s(&f.header), opt_s(&f.ph), f.l, f.didx, list_s(&f.dmsgs), f.dcidx, list_s(&f.dcmsgs)));
        cx.cur_item = None;
    });
}

#[allow(clippy::too_many_arguments)]
fn present(cx: &mut Cx, mode: Mode, s: Sess, bsig: Bytes, blind: Opt, holder: NodeId, verifier: NodeId, ideal: Shared) {
    let opts = StepOpts { eintr: if cx.ch.chance("eintr_p", 1, 6) { 1 } else { 0 }, short_reads: if cx.ch.chance("short_read_p", 1, 6) { 1 } else { 0 }, ..Default::default() };
    if cx.ch.chance("restart_holder_before_present", 1, 4) { cx.restart(holder); }
    let committed = if s.with_commitment { s.committed.clone() } else { None };
    let (s2, b2, c2, bl2) = (s.clone(), bsig.clone(), committed.clone(), blind.clone());
    let l = lnorm(&s.msgs).len();
    let dcidx = if s.with_commitment { s.dcidx.clone() } else { vec![] };
    let dc2 = dcidx.clone();
    cx.step(holder, "blind_proof_gen", opts, move || api::blind_proof_gen(s2.suite, &s2.pk, &b2, &s2.header, &s2.ph, &s2.msgs, &c2, &Some(s2.didx.clone()), &Some(dc2), &bl2), move |cx, st| {
        if st.ent.1 > 0 { cx.count("probe.blind_proof_gen_drew_fresh_entropy"); }
        let proof = match st.out {
            Ok(Ok(p)) => p,
            other => { cx.violation("C05", "blind_proof_gen/failed".into(), format!("{other:?} L={l} M={} D={:?} DC={dcidx:?}", lnorm(&committed).len(), s.didx)); return; }
        };
        let m = lnorm(&committed).len();
        let u = l + 1 + m - s.didx.len() - dcidx.len();
        cx.eval(&[b"bproof_len", &proof], true);
        if proof.len() != 272 + 32 * u { cx.violation("C05", "blind_proof_gen/length-formula".into(), format!("len={} but U={u}", proof.len())); }
        let dm: Vec<Bytes> = s.didx.iter().map(|&i| lnorm(&s.msgs)[i].clone()).collect();
        let dcm: Vec<Bytes> = dcidx.iter().map(|&i| lnorm(&committed)[i].clone()).collect();
        ideal.borrow_mut().register_proof(&proof, ProofStmt { suite: s.suite, blind_iface: true, pk: s.pk.clone(), header: s.header.clone().unwrap_or_default(), ph: s.ph.clone().unwrap_or_default(), disclosed: s.didx.iter().copied().zip(dm.iter().cloned()).collect::<BTreeMap<_, _>>(), disclosed_committed: dcidx.iter().copied().zip(dcm.iter().cloned()).collect(), l });
        let f = BlindPres { suite: s.suite, plain_endpoint: false, pk: s.pk.clone(), proof, header: s.header.clone(), ph: s.ph.clone(), l: Some(l), dmsgs: Some(dm), dcmsgs: Some(dcm), didx: Some(s.didx.clone()), dcidx: Some(dcidx.clone()) };
        // neutral variants
        let mut g = f.clone();
        let mut fault = "none".to_string();
        if l == 0 && cx.ch.chance("L_absent", 1, 2) { g.l = None; fault = "L_absent_for_zero".into(); }
        if cx.ch.chance("opt_toggle_ph", 1, 3) { OctFault::Toggle.apply(&mut g.ph, 0); fault = "opt_toggle".into(); }
        if inorm(&g.didx).is_empty() && cx.ch.chance("didx_toggle", 1, 2) { g.didx = None; g.dmsgs = None; fault = "list_toggle".into(); }
        if inorm(&g.dcidx).is_empty() && cx.ch.chance("dcidx_toggle", 1, 2) { g.dcidx = None; g.dcmsgs = None; fault = "list_toggle".into(); }
        deliver_pres(cx, verifier, g, fault, ideal.clone());
        if mode == Mode::Sound { bad_presentations(cx, f, l, m, verifier, ideal); }
    });
}

fn bad_presentations(cx: &mut Cx, f: BlindPres, l: usize, m: usize, verifier: NodeId, ideal: Shared) {
    for c in int_corruptions(l, l).into_iter().filter(|&c| c <= l + m + 2).map(Some).chain([None]) {
        if c == Some(l) || (c.is_none() && l == 0) { continue; }
        let mut g = f.clone(); g.l = c; deliver_pres(cx, verifier, g, "L_int_corrupt".into(), ideal.clone());
    }
    // Mallory: index ALIASING across the two lists.  With two disclosed committed messages c_a (at
    // j_a) and c_b (at j_b): c_a is claimed through the signer-side list at position L + 1 + j_b and
    // c_b through the committed list at position j_a -- both claims are false, but the multiset of
    // merged positions and the multiset of messages are the honest ones
    if let (Some(l), true) = (f.l, lnorm(&f.dcmsgs).len() >= 2) {
        let (dc, dcm) = (inorm(&f.dcidx).to_vec(), lnorm(&f.dcmsgs).to_vec());
        let (ja, jb, ca, cb) = (dc[0], dc[1], dcm[0].clone(), dcm[1].clone());
        let mut g = f.clone();
        let mut di = g.didx.take().unwrap_or_default(); let mut dm = g.dmsgs.take().unwrap_or_default();
        di.push(l + 1 + jb); dm.push(ca);
        let mut ci = dc.clone(); let mut cm = dcm.clone();
        ci.remove(1); cm.remove(1); cm[0] = cb; ci[0] = ja;
        g.didx = Some(di); g.dmsgs = Some(dm); g.dcidx = Some(ci); g.dcmsgs = Some(cm);
        if dcm[0] != dcm[1] { deliver_pres(cx, verifier, g, "forged:index_aliasing_across_the_two_lists".into(), ideal.clone()); }
    }
    for which in 0..2u8 {
        let n = if which == 0 { lnorm(&f.dmsgs).len() } else { lnorm(&f.dcmsgs).len() };
        for lf in ListFault::pick(&mut cx.ch, n, 60, 15) {
            let mut g = f.clone();
            let tgt = if which == 0 { &mut g.dmsgs } else { &mut g.dcmsgs };
            let mut v = tgt.take().unwrap_or_default();
            lf.apply(&mut v, cx.run_seed);
            *tgt = Some(v);
            deliver_pres(cx, verifier, g, format!("{}_{}", if which == 0 { "dmsgs" } else { "dcmsgs" }, lf.kind()), ideal.clone());
        }
        for pos in (0..n).filter(|&p| n <= 8 || p == 0 || p == n / 2 || p + 1 == n) {
            let honest = if which == 0 { inorm(&f.didx)[pos] } else { inorm(&f.dcidx)[pos] };
            let bound = if which == 0 { l } else { m };
            for c in int_corruptions(honest, bound).into_iter().filter(|&c| c < (1 << 31)) {
                let mut g = f.clone();
                let tgt = if which == 0 { &mut g.didx } else { &mut g.dcidx };
                let mut v = tgt.take().unwrap_or_default();
                v[pos] = c;
                *tgt = Some(v);
                deliver_pres(cx, verifier, g, format!("{}_int_corrupt", if which == 0 { "didx" } else { "dcidx" }), ideal.clone());
            }
        }
    }
    // a second, different message claimed for an already disclosed index (both lists, after and
    // before the genuine pair)
    for which in 0..2u8 {
        let n = if which == 0 { inorm(&f.didx).len() } else { inorm(&f.dcidx).len() };
        if n == 0 { continue; }
        let i = cx.ch.choose("pair_conflict", n as u64) as usize;
        for before in [false, true] {
            let mut g = f.clone();
            let (ti, tm) = if which == 0 { (&mut g.didx, &mut g.dmsgs) } else { (&mut g.dcidx, &mut g.dcmsgs) };
            let (mut a, mut b) = (ti.take().unwrap(), tm.take().unwrap());
            let forged = bytes_for(cx.run_seed, b"conflict", which as u64, 6);
            if before { a.insert(i, a[i]); b.insert(i, forged); } else { a.insert(i + 1, a[i]); b.insert(i + 1, forged); }
            *ti = Some(a); *tm = Some(b);
            deliver_pres(cx, verifier, g, format!("{}_pair_conflicting_duplicate:{}", if which == 0 { "signer" } else { "committed" }, if before { "before" } else { "after" }), ideal.clone());
        }
    }
    // the INDEX list alone in another order / one index twice with one message (both lists): see
    // scen_proof -- a verifier that sorts and de-duplicates the indexes without the messages
    for which in 0..2u8 {
        let (idx, ms) = if which == 0 { (inorm(&f.didx).to_vec(), lnorm(&f.dmsgs).to_vec()) } else { (inorm(&f.dcidx).to_vec(), lnorm(&f.dcmsgs).to_vec()) };
        let n = idx.len();
        let side = if which == 0 { "didx" } else { "dcidx" };
        if n >= 2 {
            let (i, j) = (cx.ch.choose("idx_only_i", n as u64) as usize, cx.ch.choose("idx_only_j", n as u64) as usize);
            if ms[i] != ms[j] {
                let mut g = f.clone();
                let mut a = idx.clone(); a.swap(i, j);
                if which == 0 { g.didx = Some(a); } else { g.dcidx = Some(a); }
                cx.count("probe.index_list_reordered_messages_as_given");
                deliver_pres(cx, verifier, g, format!("{side}_reordered_messages_as_given"), ideal.clone());
            }
        }
        if n >= 1 {
            let i = cx.ch.choose("idx_dup_only", n as u64) as usize;
            let mut g = f.clone();
            let mut a = idx.clone(); a.insert(i, a[i]);
            if which == 0 { g.didx = Some(a); } else { g.dcidx = Some(a); }
            deliver_pres(cx, verifier, g, format!("{side}_duplicated_without_its_message"), ideal.clone());
        }
    }
    // Mallory: a disclosed COMMITTED message (chosen by the prover) claimed as a SIGNER message: the
    // pair (j, c) leaves the committed lists and enters the signer lists as (L + 1 + j, c) -- the
    // merged position is the honest one, the claim "the signer knew c" is false
    if let (Some(l), true) = (f.l, !inorm(&f.dcidx).is_empty()) {
        let mut g = f.clone();
        let (mut b, mut bm) = (g.dcidx.take().unwrap(), g.dcmsgs.take().unwrap());
        let (mut a, mut am) = (g.didx.take().unwrap_or_default(), g.dmsgs.take().unwrap_or_default());
        let (j, c) = (b.pop().unwrap(), bm.pop().unwrap());
        a.push(l + 1 + j); am.push(c);
        g.didx = Some(a); g.dmsgs = Some(am); g.dcidx = Some(b); g.dcmsgs = Some(bm);
        cx.count("probe.committed_message_claimed_as_signer_message");
        deliver_pres(cx, verifier, g, "forged:committed_message_claimed_through_signer_index_beyond_L".into(), ideal.clone());
    }
    // ... and the same message moved across the boundary of the two MESSAGE lists only (indexes
    // untouched): the concatenation the verifier hashes is the honest one, the two lists are not
    if !lnorm(&f.dcmsgs).is_empty() {
        let mut g = f.clone();
        let mut bm = g.dcmsgs.take().unwrap();
        let mut am = g.dmsgs.take().unwrap_or_default();
        am.push(bm.remove(0));
        g.dmsgs = Some(am); g.dcmsgs = Some(bm);
        deliver_pres(cx, verifier, g, "forged:message_moved_across_the_list_boundary".into(), ideal.clone());
    }
    // a disclosed signer message presented as a disclosed committed message and vice versa
    if !inorm(&f.didx).is_empty() {
        let mut g = f.clone();
        let (mut a, mut am) = (g.didx.take().unwrap(), g.dmsgs.take().unwrap());
        let (mut b, mut bm) = (g.dcidx.take().unwrap_or_default(), g.dcmsgs.take().unwrap_or_default());
        let (i, x) = (a.pop().unwrap(), am.pop().unwrap());
        let pos = b.iter().position(|&q| q > i).unwrap_or(b.len());
        b.insert(pos, i); bm.insert(pos, x);
        g.didx = Some(a); g.dmsgs = Some(am); g.dcidx = Some(b); g.dcmsgs = Some(bm);
        deliver_pres(cx, verifier, g, "pair_moved_to_committed".into(), ideal.clone());
    }
    for of in OctFault::all() {
        let mut g = f.clone(); of.apply(&mut g.header, cx.run_seed); deliver_pres(cx, verifier, g, format!("header_{}", of.kind()), ideal.clone());
        let mut g = f.clone(); of.apply(&mut g.ph, cx.run_seed); deliver_pres(cx, verifier, g, format!("ph_{}", of.kind()), ideal.clone());
    }
    let nbits = f.proof.len() * 8;
    let slice = cx.ch.forced("proof_bit_slice", (nbits / 64) as u64, cx.run_index) as usize;
    for bit in slice * 64..slice * 64 + 64 { let mut g = f.clone(); flip(&mut g.proof, bit); deliver_pres(cx, verifier, g, "proof_bitflip".into(), ideal.clone()); }
    for k in 1..=2usize { let mut g = f.clone(); g.proof.truncate(f.proof.len() - 32 * k); deliver_pres(cx, verifier, g, "proof_truncate_scalars".into(), ideal.clone()); }
    { let mut g = f.clone(); let mut e = bytes_for(cx.run_seed, b"ext", 0, 32); e[0] &= 0x3f; g.proof.extend_from_slice(&e); deliver_pres(cx, verifier, g, "proof_extend_scalars".into(), ideal.clone()); }
    for _ in 0..4 { let mut g = f.clone(); let bit = cx.ch.choose("pk_bit", 768) as usize; flip(&mut g.pk, bit); deliver_pres(cx, verifier, g, "store_pk_bitflip".into(), ideal.clone()); }
    { let mut g = f.clone(); g.suite = f.suite.other(); deliver_pres(cx, verifier, g, "misroute_suite".into(), ideal.clone()); }
    { let mut g = f.clone(); g.plain_endpoint = true; deliver_pres(cx, verifier, g, "misroute_interface".into(), ideal.clone()); }
}

/// BlindRequest frames that are not byte-identical to an honest request for this suite
fn bad_requests(cx: &mut Cx, s: Sess, cwp: Bytes, issuer: NodeId, holder: NodeId, ideal: Shared) {
    let dummy = issuer; // the faulted requests stop at the issuer
    let send = |cx: &mut Cx, s: &Sess, bytes: Bytes, fault: &str, ideal: &Shared| {
        issue(cx, Mode::Sound, s.clone(), Some(bytes), None, issuer, dummy, dummy, ideal.clone(), fault.to_string(), false);
    };
    // every single-bit flip, in slices across runs (the request is 112 + 32 M octets)
    let nbits = cwp.len() * 8;
    let per = 112;
    let nsl = (nbits + per - 1) / per;
    let slice = cx.ch.forced("cwp_bit_slice", nsl as u64, cx.run_index) as usize;
    for bit in (slice * per)..((slice + 1) * per).min(nbits) { let mut b = cwp.clone(); flip(&mut b, bit); send(cx, &s, b, "cwp_bitflip", &ideal); }
    // truncation / extension by whole scalars
    for k in 1..=3usize { if cwp.len() >= 32 * k { send(cx, &s, cwp[..cwp.len() - 32 * k].to_vec(), "cwp_truncate_scalars", &ideal); } }
    for cls in 0..3u8 {
        let mut b = cwp.clone();
        let ext: Vec<u8> = match cls { 0 => vec![0; 32], 1 => { let mut e = bytes_for(cx.run_seed, b"cwpext", 0, 32); e[0] &= 0x3f; e } _ => cwp[cwp.len() - 32..].to_vec() };
        b.extend_from_slice(&ext);
        send(cx, &s, b, "cwp_extend_scalars", &ideal);
    }
    // ... by whole blocks that are NOT canonical scalars (r, r + 4, all ones), inserted after s^,
    // in front of the challenge, and appended: a decoder that skips what it cannot parse
    {
        const R_BE: [u8; 32] = [0x73, 0xed, 0xa7, 0x53, 0x29, 0x9d, 0x7d, 0x48, 0x33, 0x39, 0xd8, 0x08, 0x09, 0xa1, 0xd8, 0x05, 0x53, 0xbd, 0xa4, 0x02, 0xff, 0xfe, 0x5b, 0xfe, 0xff, 0xff, 0xff, 0xff, 0x00, 0x00, 0x00, 0x01];
        let mut r4 = R_BE; r4[31] += 4;
        let blocks = [R_BE.to_vec(), r4.to_vec(), vec![0xff; 32]];
        let blk = &blocks[cx.ch.choose("non_canonical_block", 3) as usize];
        for (pos_name, at) in [("after_s^", 80usize), ("before_challenge", cwp.len() - 32), ("appended", cwp.len())] {
            let mut b = cwp.clone(); b.splice(at..at, blk.iter().copied());
            send(cx, &s, b, &format!("cwp_extend_non_canonical_block:{pos_name}"), &ideal);
        }
    }
    if cwp.len() > 112 { let mut b = cwp.clone(); b.drain(80..112); send(cx, &s, b, "cwp_drop_response", &ideal); }
    { let mut b = cwp.clone(); let ins = cwp[48..80].to_vec(); b.splice(80..80, ins); send(cx, &s, b, "cwp_insert_response", &ideal); }
    // Mallory: the identity as commitment point with a proof that is NOT the (legitimate) all-zero
    // proof of the zero opening: random scalars, and the scalars of the honest request
    {
        let mut id = vec![0u8; 48]; id[0] = 0xc0;
        for (name, tail) in [("random_scalars", { let mut t = bytes_for(cx.run_seed, b"idc", 0, cwp.len() - 48); for c in t.chunks_mut(32) { c[0] &= 0x3f; } t }), ("honest_scalars", cwp[48..].to_vec()), ("two_random_scalars", { let mut t = bytes_for(cx.run_seed, b"idc2", 0, 64); for c in t.chunks_mut(32) { c[0] &= 0x3f; } t })] {
            let mut b = id.clone(); b.extend_from_slice(&tail);
            send(cx, &s, b, &format!("forged:identity_commitment+{name}"), &ideal);
        }
    }
    // Mallory: a commitment point OUTSIDE the prime-order subgroup (C + T with T of order 3 on the
    // curve) with a Schnorr proof ground until the challenge is a multiple of 3, so that c*T
    // vanishes from the verifier's equation: only the subgroup check of the decoder refuses it
    {
        use group::Curve;
        let t3 = crate::scen_proof::small_order_point();
        let cm = lnorm(&s.committed).to_vec();
        if let (Ok(ms), Ok(g)) = (rm::messages_to_scalars(s.suite, &cm, &rm::api_id(s.suite, true)), rm::blind_generators(s.suite, cm.len() + 1)) {
            let run_seed = cx.run_seed;
            let sc = move |tag: u64| { let mut b = bytes_for(run_seed, b"offsub", tag, 32); b[0] &= 0x3f; rm::octets_to_scalar(&b).unwrap_or(Scalar::ONE) };
            let blind = sc(0);
            let mut c = g[0] * blind;
            for i in 0..ms.len() { c += g[1 + i] * ms[i]; }
            let c_off = c + t3;
            // (a verifier may multiply C by c and subtract, or by the scalar -c = r - c: one frame per
            //  residue class of the challenge modulo 3 covers both, r = 1 mod 3)
            let mut done = [false; 3];
            for attempt in 0..24u64 {
                let s_tilde = sc(100 + attempt);
                let m_tilde: Vec<Scalar> = (0..ms.len()).map(|i| sc(1000 + attempt * 300 + i as u64)).collect();
                let mut cbar = g[0] * s_tilde;
                for i in 0..ms.len() { cbar += g[1 + i] * m_tilde[i]; }
                let Ok(chal) = rm::blind_challenge(s.suite, &c_off, &cbar, &g) else { break };
                let res = crate::scen_proof::scalar_mod3(&chal) as usize;
                if done[res] { continue; }
                done[res] = true;
                let mut o = c_off.to_affine().to_compressed().to_vec();
                o.extend_from_slice(&(s_tilde + blind * chal).to_be_bytes());
                for i in 0..ms.len() { o.extend_from_slice(&(m_tilde[i] + ms[i] * chal).to_be_bytes()); }
                o.extend_from_slice(&chal.to_be_bytes());
                cx.count("probe.off_subgroup_commitment_with_ground_challenge");
                send(cx, &s, o, "forged:off_subgroup_commitment+ground_proof", &ideal);
                if done.iter().all(|d| *d) { break; }
            }
        }
    }
    // cross-suite replay: the honest request of this suite delivered to the other suite's issuer
    { let mut s2 = s.clone(); s2.suite = s.suite.other(); send(cx, &s2, cwp.clone(), "misroute_suite", &ideal); }
    // splice: commitment of this request with the proof made for other committed messages
    let other: OptList = Some(lnorm(&s.committed).iter().enumerate().map(|(i, m)| if i == 0 { let mut x = m.clone(); x.push(1); x } else { m.clone() }).chain(if lnorm(&s.committed).is_empty() { vec![vec![9u8]] } else { vec![] }).collect());
    let (suite, ideal2, s3, cwp3) = (s.suite, ideal.clone(), s.clone(), cwp.clone());
    cx.step(holder, "commit_other", StepOpts::default(), move || api::commit(suite, &other), move |cx, st| {
        let Ok(Ok((cwp2, _))) = st.out else { return };
        // (the second request is honest in itself and is NOT registered on purpose only for its
        //  spliced forms; register it so that delivering it verbatim would be MustAccept)
        let mut spl = cwp3[..48].to_vec(); spl.extend_from_slice(&cwp2[48..]);
        issue(cx, Mode::Sound, s3.clone(), Some(spl), None, issuer, dummy, dummy, ideal2.clone(), "splice_commitment+other_proof".into(), false);
        let mut spl = cwp2[..48].to_vec(); spl.extend_from_slice(&cwp3[48..]);
        issue(cx, Mode::Sound, s3.clone(), Some(spl), None, issuer, dummy, dummy, ideal2.clone(), "splice_other_commitment+proof".into(), false);
    });
}
