//! C01 (completeness, neutral faults, restarts) and C02 (binding under the corrupting
//! fault catalogue) on the issuance leg: Issuer -> Credential frame -> Holder.
use crate::api::{self, Bytes, KeyCodec, Opt, OptList, Suite};
use crate::common::*;
use std::cell::RefCell;
use std::rc::Rc;
use zksim_core::sim::{Cx, NodeId, StepOpts};
use zksim_core::wire::{flip, ListFault, OctFault};

#[derive(Clone, Debug)]
pub struct CredFrame {
    pub suite: Suite,
    pub blind_endpoint: bool,
    pub pk: Bytes,
    pub sig: Bytes,
    pub header: Opt,
    pub msgs: OptList,
}

type Shared = Rc<RefCell<Ideal>>;

#[derive(Clone, Copy, PartialEq, Eq)]
enum Mode { Complete, Sound }

pub fn run_c01(cx: &mut Cx) { run(cx, Mode::Complete) }
pub fn run_c02(cx: &mut Cx) { run(cx, Mode::Sound) }

fn run(cx: &mut Cx, mode: Mode) {
    cx.preemptions_left = cx.ch.choose("preemptions", 5) as u32;
    let ideal: Shared = Rc::new(RefCell::new(Ideal::default()));
    let issuer = cx.node("issuer");
    let holder = cx.node("holder");
    let n = if mode == Mode::Complete { 1 + cx.ch.choose("sessions", 3) } else { 2 };
    for s in 0..n {
        // in the binding check session 0 is an honest warm-up of the same nodes (so that whatever
        // they cached for another shape / suite / header precedes the corrupted deliveries)
        let m = if mode == Mode::Sound && s == 0 { Mode::Complete } else { mode };
        session(cx, m, s, issuer, holder, ideal.clone());
    }
    cx.run();
    if mode == Mode::Complete && cx.ch.chance("concurrent_burst", 1, 6) { crate::scen_burst::sign_burst(cx); }
    if mode == Mode::Complete { crate::scen_sweep::sign(cx); }
}

fn session(cx: &mut Cx, mode: Mode, s: u64, issuer: NodeId, holder: NodeId, ideal: Shared) {
    let suite = gen_suite(cx);
    let (ikm, info) = gen_key_material(cx, s);
    let header = gen_octets(cx, "header", s);
    let msgs_v = gen_messages(cx, "L", s + 1, mode == Mode::Sound);
    let msgs = as_optlist(cx, msgs_v);
    let random_key = cx.ch.chance("random_key", 1, 8);
    cx.log(format!("session {s}: suite={} header={} msgs={} random_key={random_key}", suite.name(), opt_s(&header), list_s(&msgs)));
    cx.cell(format!("shape|{}|{}|hdr:{}", suite.name(), shape_bucket(lnorm(&msgs).len()), match &header { None => "absent", Some(h) if h.is_empty() => "empty", _ => "bytes" }));
    let info2 = info.clone();
    let ikm2 = ikm.clone();
    cx.step(issuer, "keygen", StepOpts::default(), move || if random_key { api::keygen_random(suite) } else { api::keygen(suite, &ikm2, info2.as_deref(), None) }, move |cx, st| {
        let (sk, pk) = match st.out {
            Ok(Ok(k)) => k,
            other => { cx.violation("C01", "keygen/failed".into(), format!("{other:?} for ikm of {} octets", ikm.len())); return; }
        };
        // issuer crash: the key survives only through its store encodings
        if cx.ch.chance("restart_issuer_after_keygen", 1, 5) {
            cx.restart(issuer);
            let codec = [KeyCodec::Octets, KeyCodec::Coordinates, KeyCodec::Json][cx.ch.choose("key_codec", 3) as usize];
            cx.count("probe.issuer_reload_after_restart");
            let (sk2, pk2) = (sk.clone(), pk.clone());
            let (sk3, pk3) = (sk.clone(), pk.clone());
            cx.step(issuer, "reload_keys", StepOpts::default(), move || api::reload_keys(suite, &sk2, &pk2, codec), move |cx, st| {
                match st.out {
                    Ok(Ok((a, b))) if a == sk3 && b == pk3 => {}
                    other => cx.violation("C09", format!("store/keys/{codec:?}/roundtrip"), format!("reloaded keys differ: {other:?}")),
                }
                cx.eval(&[b"reload", &sk3], true);
            });
        }
        issue(cx, mode, s, suite, sk, pk, header, msgs, issuer, holder, ideal);
    });
}

#[allow(clippy::too_many_arguments)]
fn issue(cx: &mut Cx, mode: Mode, s: u64, suite: Suite, sk: Bytes, pk: Bytes, header: Opt, msgs: OptList, issuer: NodeId, holder: NodeId, ideal: Shared) {
    let (sk1, pk1, h1, m1) = (sk.clone(), pk.clone(), header.clone(), msgs.clone());
    cx.step(issuer, "sign", StepOpts::default(), move || api::sign_and_selfcheck(suite, &sk1, &pk1, &h1, &m1), move |cx, st| {
        let sig = match st.out {
            Ok(Ok((sig, true))) => sig,
            Ok(Ok((_, false))) => { cx.violation("C01", "sign/in-memory-verify-failed".into(), format!("suite={} header={} msgs={}", suite.name(), opt_s(&header), list_s(&msgs))); return; }
            other => { cx.violation("C01", "sign/failed".into(), format!("{other:?} suite={} header={} msgs={}", suite.name(), opt_s(&header), list_s(&msgs))); return; }
        };
        cx.eval(&[b"sign", &sig], true);
        ideal.borrow_mut().register_sig(&sig, SigStmt { suite, blind_iface: false, pk: pk.clone(), header: header.clone().unwrap_or_default(), msgs: lnorm(&msgs).to_vec(), committed: vec![], blind: vec![0; 32] });
        if mode == Mode::Complete {
            // absent == empty, and signing is deterministic also across an issuer restart
            let empty_h = header.as_ref().map(|h| h.is_empty()).unwrap_or(true);
            let empty_m = lnorm(&msgs).is_empty();
            let restart = cx.ch.chance("restart_issuer_before_resign", 1, 4);
            if empty_h || empty_m || restart {
                let mut h2 = header.clone();
                let mut m2 = msgs.clone();
                if empty_h { OctFault::Toggle.apply(&mut h2, 0); cx.count("fault.opt_toggle"); }
                if empty_m { m2 = if m2.is_none() { Some(vec![]) } else { None }; cx.count("fault.list_toggle"); }
                if restart { cx.restart(issuer); }
                let (sk2, pk2, sig2) = (sk.clone(), pk.clone(), sig.clone());
                let (h3, m3) = (h2.clone(), m2.clone());
                cx.step(issuer, "resign", StepOpts::default(), move || api::sign(suite, &sk2, &pk2, &h2, &m2), move |cx, st| {
                    cx.eval(&[b"resign", &sig2, &[restart as u8]], true);
                    match st.out {
                        Ok(Ok(x)) if x == sig2 => {}
                        other => cx.violation("C01", format!("sign/same-statement-different-signature/{}", if restart { "after-restart" } else { "absent-vs-empty" }), format!("header={} msgs={} -> {other:?}", opt_s(&h3), list_s(&m3))),
                    }
                });
            }
        }
        let frame = CredFrame { suite, blind_endpoint: false, pk: pk.clone(), sig: sig.clone(), header: header.clone(), msgs: msgs.clone() };
        match mode {
            Mode::Complete => deliver_neutral(cx, s, frame, holder, ideal),
            Mode::Sound => deliver_corrupted(cx, s, frame, sk, issuer, holder, ideal),
        }
    });
}

fn deliver(cx: &mut Cx, holder: NodeId, f: CredFrame, fault: String, ideal: Shared) {
    let Some(item) = cx.item() else { return };
    cx.log(format!("item {item}: deliver {fault}"));
    let f2 = f.clone();
    cx.step(holder, "verify", StepOpts::default(), move || {
        if f2.blind_endpoint { api::verify_blind(f2.suite, &f2.pk, &f2.sig, &f2.header, &f2.msgs, &None, &None) } else { api::verify(f2.suite, &f2.pk, &f2.sig, &f2.header, &f2.msgs) }
    }, move |cx, st| {
        cx.cur_item = Some(item);
        let verdict = ideal.borrow().judge_sig(f.suite, f.blind_endpoint, &f.pk, &f.sig, &f.header, &f.msgs, &None, &None);
        let seen = seen_of(&st.out);
        cx.eval(&[f.suite.name().as_bytes(), &[f.blind_endpoint as u8], &f.pk, &f.sig, zksim_core::wire::norm(&f.header), &lnorm(&f.msgs).concat(), &(lnorm(&f.msgs).len() as u64).to_le_bytes()], seen != Seen::Boundary);
        let entry = if f.blind_endpoint { "verify_blind_sign" } else { "verify" };
        settle(cx, "C01", "C02", entry, &fault, verdict, &seen, || format!("suite={} pk={} sig={} header={} msgs={}", f.suite.name(), hexs(&f.pk), hexs(&f.sig), opt_s(&f.header), list_s(&f.msgs)));
        cx.cur_item = None;
    });
}

/// neutral faults only: the delivered statement is still exactly what was signed
fn deliver_neutral(cx: &mut Cx, _s: u64, mut f: CredFrame, holder: NodeId, ideal: Shared) {
    let mut label = vec!["none".to_string()];
    if cx.ch.chance("opt_toggle_header", 1, 3) { OctFault::Toggle.apply(&mut f.header, 0); label.push("opt_toggle".into()); }
    if lnorm(&f.msgs).is_empty() && cx.ch.chance("list_toggle", 1, 2) { f.msgs = if f.msgs.is_none() { Some(vec![]) } else { None }; label.push("list_toggle".into()); }
    if let Some(v) = f.msgs.as_mut() {
        // swap of two equal messages / dup+drop of the same chunk: identical list
        let eq: Vec<(usize, usize)> = (0..v.len()).flat_map(|i| (i + 1..v.len()).map(move |j| (i, j))).filter(|&(i, j)| v[i] == v[j]).collect();
        if !eq.is_empty() && cx.ch.chance("swap_equal", 1, 2) {
            let (i, j) = eq[cx.ch.choose("swap_pair", eq.len() as u64) as usize];
            v.swap(i, j);
            label.push("elem_swap_equal".into());
        }
        if !v.is_empty() && cx.ch.chance("dup_then_drop", 1, 4) {
            let i = cx.ch.choose("dup_idx", v.len() as u64) as usize;
            ListFault::Dup(i).apply(v, 0);
            ListFault::Drop(i).apply(v, 0);
            label.push("elem_dup+drop".into());
        }
    }
    // holder crash between receipt and verification: the credential survives as octets
    if cx.ch.chance("restart_holder", 1, 4) { cx.restart(holder); cx.count("probe.holder_restart_before_verify"); }
    let fault = label.last().unwrap().clone();
    let dup = cx.ch.chance("frame_dup", 1, 5);
    deliver(cx, holder, f.clone(), fault.clone(), ideal.clone());
    if dup {
        cx.count("fault.frame_dup");
        deliver(cx, holder, f, "frame_dup".into(), ideal);
    }
}

/// the corrupting catalogue; every item is one delivered frame, judged by content
#[allow(clippy::too_many_arguments)]
fn deliver_corrupted(cx: &mut Cx, s: u64, f: CredFrame, sk: Bytes, issuer: NodeId, holder: NodeId, ideal: Shared) {
    // fault-free control first
    deliver(cx, holder, f.clone(), "none".into(), ideal.clone());
    // (1) enumerated: 40 of the 640 single-bit flips per run; 16 consecutive runs cover all
    let slice = cx.ch.forced("bitflip_slice", 16, cx.run_index);
    for bit in (slice * 40)..(slice * 40 + 40) {
        let mut g = f.clone();
        flip(&mut g.sig, bit as usize);
        deliver(cx, holder, g, "sig_bitflip".into(), ideal.clone());
    }
    // (2) every single-element list fault for small L, a sample otherwise
    let l = lnorm(&f.msgs).len();
    let picks: Vec<ListFault> = ListFault::pick(&mut cx.ch, l, 70, 30);
    // Mallory: ENCODING CONFUSION -- a message replaced by an encoding of the scalar it maps to
    // (32 raw octets, the serde form {"value":"<hex>"}, the hex text): a verifier that accepts
    // "pre-mapped" messages verifies a different octet string
    let confusions: Vec<(usize, &'static str, Bytes)> = if l > 0 {
        let i = (cx.run_index as usize) % l;
        match crate::refmodel::messages_to_scalars(f.suite, &[lnorm(&f.msgs)[i].clone()], &crate::refmodel::api_id(f.suite, false)) {
            Ok(sc) => { let b = sc[0].to_be_bytes(); vec![(i, "scalar_octets", b.to_vec()), (i, "scalar_serde_json", format!("{{\"value\":\"{}\"}}", hex::encode(b)).into_bytes()), (i, "scalar_hex_text", hex::encode(b).into_bytes())] }
            Err(_) => vec![],
        }
    } else { vec![] };
    for (i, name, enc) in confusions {
        let mut g = f.clone();
        let mut v = g.msgs.take().unwrap_or_default();
        if v[i] == enc { continue; }
        v[i] = enc;
        g.msgs = Some(v);
        deliver(cx, holder, g, format!("forged:message_as_{name}"), ideal.clone());
    }
    for lf in picks {
        let mut g = f.clone();
        let mut v = g.msgs.take().unwrap_or_default();
        lf.apply(&mut v, cx.run_seed);
        g.msgs = Some(v);
        deliver(cx, holder, g, lf.kind().into(), ideal.clone());
    }
    // (3) header faults
    for of in OctFault::all() {
        let mut g = f.clone();
        of.apply(&mut g.header, cx.run_seed);
        deliver(cx, holder, g, format!("header_{}", of.kind()), ideal.clone());
    }
    // (4) misroute: other suite, blind endpoint
    { let mut g = f.clone(); g.suite = f.suite.other(); deliver(cx, holder, g, "misroute_suite".into(), ideal.clone()); }
    { let mut g = f.clone(); g.blind_endpoint = true; deliver(cx, holder, g, "misroute_interface".into(), ideal.clone()); }
    { let mut g = f.clone(); g.blind_endpoint = true; g.suite = f.suite.other(); deliver(cx, holder, g, "misroute_suite+interface".into(), ideal.clone()); }
    // (5) other key: a second honest key of the same suite; and stored-pk corruption
    let ikm2 = zksim_core::prng::bytes_for(cx.run_seed, b"ikm-other", s, 32);
    let (f5, ideal5) = (f.clone(), ideal.clone());
    let suite = f.suite;
    cx.step(issuer, "keygen_other", StepOpts::default(), move || api::keygen(suite, &ikm2, None, None), move |cx, st| {
        if let Ok(Ok((_, pk2))) = st.out {
            let mut g = f5.clone();
            g.pk = pk2;
            deliver(cx, holder, g, "misroute_key".into(), ideal5.clone());
        }
    });
    for _ in 0..6 {
        let mut g = f.clone();
        let bit = cx.ch.choose("pk_bit", 768) as usize;
        flip(&mut g.pk, bit);
        deliver(cx, holder, g, "store_pk_bitflip".into(), ideal.clone());
    }
    // (6) a signature issued through the blind interface (no commitment) delivered to the plain endpoint
    let (sk6, pk6, h6, m6) = (sk.clone(), f.pk.clone(), f.header.clone(), f.msgs.clone());
    let (f6, ideal6) = (f.clone(), ideal.clone());
    cx.step(issuer, "blind_sign_nocommit", StepOpts::default(), move || api::blind_sign(suite, &sk6, &pk6, &None, &h6, &m6), move |cx, st| {
        if let Ok(Ok(bsig)) = st.out {
            ideal6.borrow_mut().register_sig(&bsig, SigStmt { suite, blind_iface: true, pk: f6.pk.clone(), header: f6.header.clone().unwrap_or_default(), msgs: lnorm(&f6.msgs).to_vec(), committed: vec![], blind: vec![0; 32] });
            let mut g = f6.clone();
            g.sig = bsig.clone();
            deliver(cx, holder, g.clone(), "blind_sig_to_plain_endpoint".into(), ideal6.clone());
            g.blind_endpoint = true; // control: at its own endpoint it is MustAccept
            deliver(cx, holder, g.clone(), "none".into(), ideal6.clone());
            g.suite = suite.other();
            deliver(cx, holder, g, "blind_sig_to_other_suite".into(), ideal6.clone());
        }
    });
}
