//! Size sweep: every run of the completeness checks adds one honest flow whose size is the run
//! index modulo the sweep width, so that a batch walks through EVERY list length 0..W (W = 300
//! quick, 1200 thorough) instead of sampling around the sizes somebody thought of.  A defect that
//! needs one particular count (a block size, a buffer limit, a multiple of something) is met
//! deterministically once the batch is at least W runs long.
use crate::api::{self, Bytes, Suite};
use zksim_core::prng::bytes_for;
use zksim_core::sim::{Cx, StepOpts};

fn width(cx: &Cx) -> u64 { if cx.thorough { 1200 } else { 300 } }

/// C01: sign + verify (+ octet round trip through verify) over k messages
pub fn sign(cx: &mut Cx) {
    let k = cx.ch.forced("sweep_size", width(cx), cx.run_index) as usize;
    let suite = Suite::from_idx(cx.run_index / width(cx));
    let seed = cx.run_seed;
    let node = cx.node("sweeper");
    cx.count("n.size_sweep_flows");
    cx.step(node, "sweep-sign", StepOpts::default(), move || {
        let (sk, pk) = api::keygen(suite, &bytes_for(seed, b"sw-ikm", 0, 32), None, None)?;
        let msgs: Vec<Bytes> = (0..k).map(|i| bytes_for(seed, b"sw-m", i as u64, 1 + i % 23)).collect();
        let (sig, ok) = api::sign_and_selfcheck(suite, &sk, &pk, &Some(b"sweep".to_vec()), &Some(msgs.clone()))?;
        if !ok { return Err("the fresh signature does not verify in memory".into()); }
        match api::verify(suite, &pk, &sig, &Some(b"sweep".to_vec()), &Some(msgs)) { api::Res::Accept => Ok(()), r => Err(format!("verify after the octet round trip: {r:?}")) }
    }, move |cx, st| {
        cx.eval(&[b"sweep-sign", &(k as u64).to_le_bytes(), suite.name().as_bytes()], true);
        match st.out { Ok(Ok(())) => cx.count("verdict.MustAccept.accept"), other => cx.violation("C01", "size-sweep/sign-verify".into(), format!("suite={} L={k}: {other:?}", suite.name())) }
    });
    cx.run();
}

/// C03: proof_gen + proof_verify over k messages, none disclosed (U = k) or a few
pub fn proof(cx: &mut Cx) {
    let k = cx.ch.forced("sweep_size", width(cx), cx.run_index) as usize;
    let suite = Suite::from_idx(cx.run_index / width(cx));
    let disclose_some = cx.run_index / (2 * width(cx)) % 2 == 1;
    let seed = cx.run_seed;
    let node = cx.node("sweeper");
    cx.count("n.size_sweep_flows");
    cx.step(node, "sweep-proof", StepOpts::default(), move || {
        let (sk, pk) = api::keygen(suite, &bytes_for(seed, b"sw-ikm", 0, 32), None, None)?;
        let msgs: Vec<Bytes> = (0..k).map(|i| bytes_for(seed, b"sw-m", i as u64, 1 + i % 23)).collect();
        let hd = Some(b"sweep".to_vec());
        let sig = api::sign(suite, &sk, &pk, &hd, &Some(msgs.clone()))?;
        let didx: Vec<usize> = if disclose_some { (0..k).filter(|i| i % 97 == 3).collect() } else { vec![] };
        let proof = api::proof_gen(suite, &pk, &sig, &hd, &Some(b"ph".to_vec()), &Some(msgs.clone()), &Some(didx.clone()))?;
        if proof.len() != 272 + 32 * (k - didx.len()) { return Err(format!("proof of {} octets for U = {}", proof.len(), k - didx.len())); }
        let dm: Vec<Bytes> = didx.iter().map(|&i| msgs[i].clone()).collect();
        match api::proof_verify(suite, &pk, &proof, &hd, &Some(b"ph".to_vec()), &Some(dm), &Some(didx)) { api::Res::Accept => Ok(()), r => Err(format!("proof_verify: {r:?}")) }
    }, move |cx, st| {
        cx.eval(&[b"sweep-proof", &(k as u64).to_le_bytes(), suite.name().as_bytes(), &[disclose_some as u8]], true);
        match st.out { Ok(Ok(())) => cx.count("verdict.MustAccept.accept"), other => cx.violation("C03", "size-sweep/proof_gen-proof_verify".into(), format!("suite={} L={k} some_disclosed={disclose_some}: {other:?}", suite.name())) }
    });
    cx.run();
}

/// C05: commit over k messages, blind issuance, blind presentation with everything hidden
pub fn blind(cx: &mut Cx) {
    let k = cx.ch.forced("sweep_size", width(cx), cx.run_index) as usize;
    let suite = Suite::from_idx(cx.run_index / width(cx));
    // the k entries go to the committed list, or are split between signer and committed messages
    let split = cx.run_index / (2 * width(cx)) % 2 == 1;
    let seed = cx.run_seed;
    let node = cx.node("sweeper");
    cx.count("n.size_sweep_flows");
    cx.step(node, "sweep-blind", StepOpts::default(), move || {
        let (l, m) = if split { (k - k / 3, k / 3) } else { (2, k) };
        let (sk, pk) = api::keygen(suite, &bytes_for(seed, b"sw-ikm", 0, 32), None, None)?;
        let msgs: Vec<Bytes> = (0..l).map(|i| bytes_for(seed, b"sw-m", i as u64, 1 + i % 23)).collect();
        let cms: Vec<Bytes> = (0..m).map(|i| bytes_for(seed, b"sw-c", i as u64, 1 + i % 19)).collect();
        let hd = Some(b"sweep".to_vec());
        let (cwp, bf) = api::commit(suite, &Some(cms.clone()))?;
        let bsig = api::blind_sign(suite, &sk, &pk, &Some(cwp), &hd, &Some(msgs.clone()))?;
        if !api::verify_blind(suite, &pk, &bsig, &hd, &Some(msgs.clone()), &Some(cms.clone()), &Some(bf.clone())).accepted() { return Err("verify_blind_sign rejected the fresh blind signature".into()); }
        let proof = api::blind_proof_gen(suite, &pk, &bsig, &hd, &None, &Some(msgs.clone()), &Some(cms.clone()), &Some(vec![]), &Some(vec![]), &Some(bf))?;
        match api::blind_proof_verify(suite, &pk, &proof, &hd, &None, Some(l), &Some(vec![]), &Some(vec![]), &Some(vec![]), &Some(vec![])) { api::Res::Accept => Ok(()), r => Err(format!("blind_proof_verify: {r:?}")) }
    }, move |cx, st| {
        cx.eval(&[b"sweep-blind", &(k as u64).to_le_bytes(), suite.name().as_bytes(), &[split as u8]], true);
        match st.out { Ok(Ok(())) => cx.count("verdict.MustAccept.accept"), other => cx.violation("C05", "size-sweep/blind-flow".into(), format!("suite={} entries={k} split={split}: {other:?}", suite.name())) }
    });
    cx.run();
}
