//! Size sweep: every run of the completeness checks adds one honest flow whose size is the run
//! index modulo the sweep width, so that a batch walks through EVERY list length 0..W (W = 300
//! quick, 1200 thorough) instead of sampling around the sizes somebody thought of.  A defect that
//! needs one particular count (a block size, a buffer limit, a multiple of something) is met
//! deterministically once the batch is at least W runs long.
use crate::api::{self, Bytes, Suite};
use zksim_core::prng::bytes_for;
use zksim_core::sim::{Cx, StepOpts};

fn width(cx: &Cx) -> u64 { if cx.thorough { 1200 } else { 300 } }

/// C01: sign + verify (+ octet round trip through verify) over k messages
pub fn sign(cx: &mut Cx) {
    let mut k = cx.ch.forced("sweep_size", width(cx), cx.run_index) as usize;
    let suite = Suite::from_idx(cx.run_index / width(cx));
    let seed = cx.run_seed;
    let node = cx.node("sweeper");
    cx.count("n.size_sweep_flows");
    // beyond the sweep: one message of 16 MiB + 1 octets (1 run in 97), and in the thorough tier one
    // credential of 17000 messages
    let giant_message = cx.run_index % 97 == 13;
    if giant_message { cx.count("probe.message_of_16_MiB"); }
    if cx.thorough && cx.run_index == 7 { k = 17000; cx.count("probe.credential_of_17000_messages"); }
    // the two octet strings with a length prefix or a length limit of their own walk through the
    // edges of those encodings as well: the header (8-octet prefix, no limit: 2^16 and beyond are
    // legal) and key_info (2-octet prefix: 65535 is the largest legal length)
    const HEADER_LENS: [usize; 9] = [5, 0, 1, 255, 256, 65535, 65536, 70000, 1 << 20];
    const KEY_INFO_LENS: [usize; 7] = [0, 1, 255, 256, 65534, 65535, 32];
    let hl = HEADER_LENS[(cx.run_index % 9) as usize];
    let kl = KEY_INFO_LENS[((cx.run_index / 9) % 7) as usize];
    if hl >= 65536 { cx.count("probe.header_of_65536_octets_or_more"); }
    if kl == 65535 { cx.count("probe.key_info_of_65535_octets"); }
    cx.step(node, "sweep-sign", StepOpts::default(), move || {
        let header = if hl == 5 { b"sweep".to_vec() } else { bytes_for(seed, b"sw-h", 0, hl) };
        let key_info = if kl == 0 { None } else { Some(bytes_for(seed, b"sw-ki", 0, kl)) };
        let (sk, pk) = api::keygen(suite, &bytes_for(seed, b"sw-ikm", 0, 32), key_info.as_deref(), None)?;
        let mut msgs: Vec<Bytes> = (0..k).map(|i| bytes_for(seed, b"sw-m", i as u64, 1 + i % 23)).collect();
        if giant_message { msgs.push(vec![0x5a; (1 << 24) + 1]); }
        let (sig, ok) = api::sign_and_selfcheck(suite, &sk, &pk, &Some(header.clone()), &Some(msgs.clone()))?;
        if !ok { return Err("the fresh signature does not verify in memory".into()); }
        match api::verify(suite, &pk, &sig, &Some(header), &Some(msgs)) { api::Res::Accept => Ok(()), r => Err(format!("verify after the octet round trip: {r:?}")) }
    }, move |cx, st| {
        cx.eval(&[b"sweep-sign", &(k as u64).to_le_bytes(), suite.name().as_bytes(), &(hl as u64).to_le_bytes(), &(kl as u64).to_le_bytes()], true);
        match st.out { Ok(Ok(())) => cx.count("verdict.MustAccept.accept"), other => cx.violation("C01", "size-sweep/sign-verify".into(), format!("suite={} L={k} header of {hl} octets, key_info of {kl} octets: {other:?}", suite.name())) }
    });
    cx.run();
}

/// C03: proof_gen + proof_verify over k messages, none disclosed (U = k) or a few
pub fn proof(cx: &mut Cx) {
    let k = cx.ch.forced("sweep_size", width(cx), cx.run_index) as usize;
    let suite = Suite::from_idx(cx.run_index / width(cx));
    let disclose_some = cx.run_index / (2 * width(cx)) % 2 == 1;
    let seed = cx.run_seed;
    let node = cx.node("sweeper");
    cx.count("n.size_sweep_flows");
    cx.step(node, "sweep-proof", StepOpts::default(), move || {
        let (sk, pk) = api::keygen(suite, &bytes_for(seed, b"sw-ikm", 0, 32), None, None)?;
        let msgs: Vec<Bytes> = (0..k).map(|i| bytes_for(seed, b"sw-m", i as u64, 1 + i % 23)).collect();
        let hd = Some(b"sweep".to_vec());
        let sig = api::sign(suite, &sk, &pk, &hd, &Some(msgs.clone()))?;
        let didx: Vec<usize> = if disclose_some { (0..k).filter(|i| i % 97 == 3).collect() } else { vec![] };
        let proof = api::proof_gen(suite, &pk, &sig, &hd, &Some(b"ph".to_vec()), &Some(msgs.clone()), &Some(didx.clone()))?;
        if proof.len() != 272 + 32 * (k - didx.len()) { return Err(format!("proof of {} octets for U = {}", proof.len(), k - didx.len())); }
        let dm: Vec<Bytes> = didx.iter().map(|&i| msgs[i].clone()).collect();
        match api::proof_verify(suite, &pk, &proof, &hd, &Some(b"ph".to_vec()), &Some(dm), &Some(didx)) { api::Res::Accept => Ok(()), r => Err(format!("proof_verify: {r:?}")) }
    }, move |cx, st| {
        cx.eval(&[b"sweep-proof", &(k as u64).to_le_bytes(), suite.name().as_bytes(), &[disclose_some as u8]], true);
        match st.out { Ok(Ok(())) => cx.count("verdict.MustAccept.accept"), other => cx.violation("C03", "size-sweep/proof_gen-proof_verify".into(), format!("suite={} L={k} some_disclosed={disclose_some}: {other:?}", suite.name())) }
    });
    cx.run();
}

/// the shape of a JSON document: keys and nesting kept, every string replaced by its length,
/// numbers and booleans kept as they are
fn json_shape(v: &serde_json::Value) -> serde_json::Value {
    use serde_json::Value as V;
    match v {
        V::String(s) => V::from(s.len()),
        V::Array(a) => V::Array(a.iter().map(json_shape).collect()),
        V::Object(o) => V::Object(o.iter().map(|(k, x)| (k.clone(), json_shape(x))).collect()),
        other => V::String(other.to_string()),
    }
}

/// C03, "reveals nothing else about message count or sizes", for BOTH forms a proof is shipped in:
/// two credentials of different sizes (L and L + d messages, the messages of the second also
/// longer), presented with the same number U of undisclosed messages, give proofs of the same
/// octet length AND of the same JSON shape (the serde text of the fresh object, as an application
/// that ships the serde form sends it: same members, same string lengths, no number that differs)
pub fn proof_shape(cx: &mut Cx) {
    let suite = Suite::from_idx(cx.run_index);
    let seed = cx.run_seed;
    let u = cx.ch.choose("shape_U", 5) as usize;
    let d = 1 + cx.ch.choose("shape_d", 6) as usize;
    let node = cx.node("shaper");
    cx.count("probe.proof_shape_compared_across_credential_sizes");
    cx.step(node, "proof-shape", StepOpts::default(), move || {
        let (sk, pk) = api::keygen(suite, &bytes_for(seed, b"sh-ikm", 0, 32), None, None)?;
        let mut out = Vec::new();
        for (l, mlen) in [(u, 3usize), (u + d, 40)] {
            let msgs: Vec<Bytes> = (0..l).map(|i| bytes_for(seed, b"sh-m", i as u64, mlen)).collect();
            let sig = api::sign(suite, &sk, &pk, &Some(b"shape".to_vec()), &Some(msgs.clone()))?;
            let didx: Vec<usize> = (u..l).collect(); // the last l - u positions are disclosed
            let (octets, json) = api::proof_gen_with_json(suite, &pk, &sig, &Some(b"shape".to_vec()), &Some(b"ph".to_vec()), &Some(msgs.clone()), &Some(didx.clone()))?;
            let dm: Vec<Bytes> = didx.iter().map(|&i| msgs[i].clone()).collect();
            let ok_json = matches!(api::proof_verify_json(suite, &pk, &json, &Some(b"shape".to_vec()), &Some(b"ph".to_vec()), &Some(dm), &Some(didx)), api::Res::Accept);
            let v: serde_json::Value = serde_json::from_str(&json).map_err(|e| e.to_string())?;
            out.push((l, octets.len(), json_shape(&v).to_string(), ok_json));
        }
        Ok::<_, String>(out)
    }, move |cx, st| {
        cx.eval(&[b"proof-shape", suite.name().as_bytes(), &[u as u8, d as u8]], true);
        match st.out {
            Ok(Ok(v)) => {
                let (a, b) = (&v[0], &v[1]);
                if !a.3 || !b.3 { cx.violation("C03", "proof/serde-form-of-a-fresh-proof-does-not-verify".into(), format!("suite={} U={u}: L={} {}, L={} {}", suite.name(), a.0, a.3, b.0, b.3)); }
                if a.1 != 272 + 32 * u || b.1 != 272 + 32 * u { cx.violation("C03", "proof/length".into(), format!("suite={} U={u}: {} and {} octets", suite.name(), a.1, b.1)); }
                if a.2 != b.2 { cx.violation("C03", "proof/serde-form-depends-on-the-number-of-signed-messages".into(), format!("suite={} U={u}: the JSON shape of a proof over L={} messages is {} and over L={} messages {}", suite.name(), a.0, a.2, b.0, b.2)); }
                else { cx.count("verdict.MustAccept.accept"); }
            }
            other => cx.violation("C03", "proof/shape-flow-failed".into(), format!("suite={} U={u} d={d}: {other:?}", suite.name())),
        }
    });
    cx.run();
}

/// C05: commit over k messages, blind issuance, blind presentation with everything hidden
pub fn blind(cx: &mut Cx) {
    let k = cx.ch.forced("sweep_size", width(cx), cx.run_index) as usize;
    let suite = Suite::from_idx(cx.run_index / width(cx));
    // the k entries go to the committed list, or are split between signer and committed messages
    let split = cx.run_index / (2 * width(cx)) % 2 == 1;
    let seed = cx.run_seed;
    let node = cx.node("sweeper");
    cx.count("n.size_sweep_flows");
    cx.step(node, "sweep-blind", StepOpts::default(), move || {
        let (l, m) = if split { (k - k / 3, k / 3) } else { (2, k) };
        let (sk, pk) = api::keygen(suite, &bytes_for(seed, b"sw-ikm", 0, 32), None, None)?;
        let msgs: Vec<Bytes> = (0..l).map(|i| bytes_for(seed, b"sw-m", i as u64, 1 + i % 23)).collect();
        let cms: Vec<Bytes> = (0..m).map(|i| bytes_for(seed, b"sw-c", i as u64, 1 + i % 19)).collect();
        let hd = Some(b"sweep".to_vec());
        let (cwp, bf) = api::commit(suite, &Some(cms.clone()))?;
        let bsig = api::blind_sign(suite, &sk, &pk, &Some(cwp), &hd, &Some(msgs.clone()))?;
        if !api::verify_blind(suite, &pk, &bsig, &hd, &Some(msgs.clone()), &Some(cms.clone()), &Some(bf.clone())).accepted() { return Err("verify_blind_sign rejected the fresh blind signature".into()); }
        let proof = api::blind_proof_gen(suite, &pk, &bsig, &hd, &None, &Some(msgs.clone()), &Some(cms.clone()), &Some(vec![]), &Some(vec![]), &Some(bf))?;
        match api::blind_proof_verify(suite, &pk, &proof, &hd, &None, Some(l), &Some(vec![]), &Some(vec![]), &Some(vec![]), &Some(vec![])) { api::Res::Accept => Ok(()), r => Err(format!("blind_proof_verify: {r:?}")) }
    }, move |cx, st| {
        cx.eval(&[b"sweep-blind", &(k as u64).to_le_bytes(), suite.name().as_bytes(), &[split as u8]], true);
        match st.out { Ok(Ok(())) => cx.count("verdict.MustAccept.accept"), other => cx.violation("C05", "size-sweep/blind-flow".into(), format!("suite={} entries={k} split={split}: {other:?}", suite.name())) }
    });
    cx.run();
}

/// EXTREME SIZE in a child process: a credential of 2600 / 3200 messages signed, presented and
/// verified on a thread with a 256 KiB stack.  A failure mode of such sizes is the death
/// of the whole process (stack exhaustion aborts, it does not unwind), so the probe runs where a
/// death is an observation instead of the end of the batch.
pub fn bigproof_child(a: &[String]) {
    let suite = Suite::from_idx(a.first().and_then(|x| x.parse().ok()).unwrap_or(0));
    let seed: u64 = a.get(1).and_then(|x| x.parse().ok()).unwrap_or(1);
    let l: usize = a.get(2).and_then(|x| x.parse().ok()).unwrap_or(2600);
    // (a 256 KiB stack: what a server gives its worker threads; the library needs a few KiB)
    let h = std::thread::Builder::new().stack_size(256 << 10).spawn(move || -> Result<(), String> {
        let (sk, pk) = api::keygen(suite, &bytes_for(seed, b"big-ikm", 0, 32), None, None)?;
        let msgs: Vec<Bytes> = (0..l).map(|i| bytes_for(seed, b"big-m", i as u64, 1 + i % 13)).collect();
        let hd = Some(b"big".to_vec());
        let sig = api::sign(suite, &sk, &pk, &hd, &Some(msgs.clone()))?;
        if !api::verify(suite, &pk, &sig, &hd, &Some(msgs.clone())).accepted() { return Err("verify rejected the fresh signature".into()); }
        let didx: Vec<usize> = (0..l).filter(|i| i % 16 == 5).collect();
        let proof = api::proof_gen(suite, &pk, &sig, &hd, &None, &Some(msgs.clone()), &Some(didx.clone()))?;
        let dm: Vec<Bytes> = didx.iter().map(|&i| msgs[i].clone()).collect();
        match api::proof_verify(suite, &pk, &proof, &hd, &None, &Some(dm), &Some(didx)) { api::Res::Accept => Ok(()), r => Err(format!("proof_verify: {r:?}")) }
    }).expect("spawn");
    match h.join() { Ok(Ok(())) => println!("ok"), Ok(Err(e)) => println!("err {e}"), Err(_) => println!("panic") }
}

pub fn bigproof(cx: &mut Cx) {
    let suite = Suite::from_idx(cx.ch.choose("big_suite", 2));
    let l = [2600usize, 3200][cx.ch.choose("big_L", 2) as usize];
    let seed = cx.run_seed;
    let node = cx.node("launcher");
    let sidx = if suite == Suite::from_idx(0) { 0 } else { 1 };
    cx.count("probe.extreme_size_in_a_child_process");
    cx.step(node, "bigproof-child", StepOpts::default(), move || {
        let exe = if std::path::Path::new("/proc/self/exe").exists() { std::path::PathBuf::from("/proc/self/exe") } else { std::env::current_exe().map_err(|e| e.to_string())? };
        let out = std::process::Command::new(exe).args(["bigproof", &sidx.to_string(), &seed.to_string(), &l.to_string()]).output().map_err(|e| e.to_string())?;
        Ok::<_, String>((String::from_utf8_lossy(&out.stdout).trim().to_string(), out.status.code(), format!("{:?}", out.status)))
    }, move |cx, st| {
        let (text, code, status) = match st.out { Ok(Ok(t)) => t, other => { eprintln!("zksim: bigproof child could not be launched: {other:?} (harness error)"); std::process::exit(2); } };
        cx.eval(&[b"bigproof", &(l as u64).to_le_bytes(), text.as_bytes()], true);
        match (code, text.as_str()) {
            (Some(0), "ok") => cx.count("verdict.MustAccept.accept"),
            (Some(0), other) => cx.violation("C03", "extreme-size/flow-failed".into(), format!("suite={} L={l}: {other}", suite.name())),
            _ => cx.violation("C03", "extreme-size/process-died".into(), format!("suite={} L={l}: the process making the proof died ({status}); on a thread with a 256 KiB stack", suite.name())),
        }
    });
    cx.run();
}

/// The draw behind proof_gen: calculate_random_scalars(n) returns n scalars, every time.  A source
/// that gives up once in a few hundred thousand scalars (a health test, a bounded retry) fails a
/// proof generation just as rarely; this asks for enough scalars to meet such a rate.
pub fn draw_counts(cx: &mut Cx) {
    // quick: 1.2 million scalars on one thread (past 2^20, where a counter-driven reseed or health
    // test of a per-thread generator would sit); thorough: 3 million
    let calls = if cx.thorough { 1500usize } else { 600 };
    let node = cx.node("sweeper");
    cx.count("probe.random_draw_count_volume");
    #[cfg(not(feature = "library-helpers"))]
    { let _ = (calls, node); cx.count("probe.skipped_library_helper_signature_changed"); cx.log("draw-count run skipped: the engine was built without the library-helpers feature".into()); return; }
    #[cfg(feature = "library-helpers")]
    cx.step(node, "draw-counts", StepOpts::default(), move || {
        use zkryptium::utils::util::bbsplus_utils::calculate_random_scalars;
        (0..calls).filter(|_| calculate_random_scalars(2000).len() != 2000).count()
    }, move |cx, st| {
        cx.eval(&[b"draw-counts", &(calls as u64).to_le_bytes()], true);
        match st.out { Ok(0) => cx.count("verdict.MustAccept.accept"), other => cx.violation("C03", "proof_gen/random-draw-came-back-short".into(), format!("{other:?} of {calls} draws of 2000 random scalars (what proof_gen asks for with 1995 hidden messages) did not return 2000 scalars")) }
    });
    cx.run();
}
