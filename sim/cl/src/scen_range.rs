//! C16: Boudot range proof -- in-range values prove (all widths, both endpoints), the honest
//! prover cannot prove out-of-range values, and the verifier accepts a proof only for the
//! commitment, bases, modulus and bounds it was made for (field tampering and Mallory's
//! transplant of sub-proofs onto another commitment).
use crate::kit::*;
use rug::Integer;
use serde_json::Value;
use std::sync::Arc;
use zkryptium::cl03::commitment::CL03Commitment;
use zkryptium::cl03::range_proof::Boudot2000RangeProof;
use zksim_core::sim::{Crash, Cx, NodeId, StepOpts};

type H = sha2::Sha256;

#[derive(Clone)]
struct RangeFrame { g: Integer, h: Integer, n: Integer, a: Integer, b: Integer, e_expected: Integer, proof_json: String }

fn verify_frame(f: &RangeFrame) -> bool {
    let Ok(p) = serde_json::from_str::<Boudot2000RangeProof>(&f.proof_json) else { return false };
    // the relying protocol compares the commitment inside the proof with the one it holds
    if p.E != f.e_expected { return false; }
    p.verify::<H>(&f.g, &f.h, &f.n, &f.a, &f.b)
}

fn deliver(cx: &mut Cx, verifier: NodeId, f: RangeFrame, fault: String, must_accept: bool) {
    let Some(item) = cx.item() else { return };
    cx.log(format!("item {item}: range proof {fault}"));
    let f2 = f.clone();
    cx.step(verifier, "range_verify", StepOpts::default(), move || verify_frame(&f2), move |cx, st| {
        cx.cur_item = Some(item);
        let ok = matches!(st.out, Ok(true));
        let how = match &st.out { Ok(true) => "accept", Ok(false) => "reject", Err(_) => "refused-by-panic" };
        cx.eval(&[b"range", fault.as_bytes(), f.proof_json.as_bytes(), f.a.to_string_radix(16).as_bytes(), f.b.to_string_radix(16).as_bytes(), f.e_expected.to_string_radix(16).as_bytes()], true);
        let (fc, fk) = fault_class(&fault);
        cx.count(&format!("fault.{fc}"));
        cx.count(&format!("verdict.{}.{how}", if must_accept { "MustAccept" } else { "MustReject" }));
        cx.cell(format!("range_verify|{fc}|{how}"));
        if must_accept && !ok { cx.violation("C16", format!("verify/MustAccept-not-accepted/{fk}"), format!("{fault}: [a,b]=[{},{}] -> {how}", f.a.to_string_radix(16), f.b.to_string_radix(16))); }
        if !must_accept && ok { cx.violation("C16", format!("verify/MustReject-accepted/{fk}"), format!("{fault}: [a,b]=[{},{}]", f.a.to_string_radix(16), f.b.to_string_radix(16))); }
        cx.cur_item = None;
    });
}

fn divm(a: &Integer, b: &Integer, n: &Integer) -> Integer {
    Integer::from(a * &Integer::from(b.invert_ref(n).expect("invertible"))) % n
}

pub fn run_c16(cx: &mut Cx) {
    let prover = cx.node("prover");
    let verifier = cx.node("verifier");
    // enumeration: x kind fastest, then width kind, then key (48 runs = every x kind x width kind)
    let key = pool_key(cx.ch.forced("pool_key", POOL_SIZE, cx.run_index / 48));
    let (g, h, n) = (key.cpk.g_bases[0].clone(), key.cpk.h.clone(), key.cpk.N.clone());
    // interval: widths {1, 2, 3, 2^k, 2^256 - 1, random}, lower bound 0 / small / large
    let seed = cx.run_seed;
    let wk = cx.ch.forced("width_kind", 8, cx.run_index / 6);
    let width: Integer = match wk {
        0 => Integer::from(1), 1 => Integer::from(2), 2 => Integer::from(3),
        // (1 in 4: wider than the modulus and than any f64 -- 2^1024 .. 2^1103)
        3 => if cx.ch.chance("width_beyond_f64", 1, 4) { cx.count("probe.interval_wider_than_2^1024"); Integer::from(1) << (1024 + cx.ch.choose("width_pow_wide", 80) as u32) } else { Integer::from(1) << (1 + cx.ch.choose("width_pow", 300) as u32) },
        4 => (Integer::from(1) << 256u32) - 1,
        // one below a power of two, and just below a perfect square (where an integer square root
        // taken through floating point rounds up): mostly in the 52..64-bit band
        6 => (Integer::from(1) << [54u32, 56, 58, 60, 62, 64, 53, 63, 30, 100][cx.ch.choose("width_pow_m1", 10) as usize]) - 1,
        7 => { let sbits = 27 + cx.ch.choose("near_square_bits", 6) as usize; let mut s = Integer::from_digits(&zksim_core::prng::bytes_for(seed, b"near-square", 0, 4), rug::integer::Order::MsfBe); s.keep_bits_mut(sbits as u32); s.set_bit(sbits as u32 - 1, true); Integer::from(&s * &s) - [1u32, 2, 17][cx.ch.choose("near_square_d", 3) as usize] }
        _ => Integer::from_digits(&zksim_core::prng::bytes_for(seed, b"width", 0, 1 + cx.ch.choose("width_bytes", 40) as usize), rug::integer::Order::MsfBe) + 1,
    };
    let a: Integer = match cx.ch.choose("lower_kind", 4) { 0 => Integer::from(0), 1 => Integer::from(10), 2 => (Integer::from(1) << 257u32) + 1, _ => Integer::from_digits(&zksim_core::prng::bytes_for(seed, b"lower", 0, 20), rug::integer::Order::MsfBe) };
    let b = Integer::from(&a + &width);
    let xk = cx.ch.forced("x_kind", 6, cx.run_index);
    let x: Integer = match xk {
        0 => a.clone(), 1 => b.clone(), 2 => Integer::from(&a + 1u32).min(b.clone()), 3 => Integer::from(&b - 1u32).max(a.clone()),
        4 => Integer::from(&a + &b) / 2u32,
        _ => Integer::from(&a + (Integer::from_digits(&zksim_core::prng::bytes_for(seed, b"x", 0, 48), rug::integer::Order::MsfBe) % Integer::from(&width + 1u32))),
    };
    cx.log(format!("range: width kind {wk} ({} bits) x kind {xk}", width.significant_bits()));
    cx.cell(format!("shape|w{wk}|x{xk}"));
    let opts = StepOpts { eintr: if cx.ch.chance("eintr", 1, 6) { 1 } else { 0 }, short_reads: if cx.ch.chance("short", 1, 6) { 1 } else { 0 }, ..Default::default() };
    let (g1, h1, n1, a1, b1, x1) = (g.clone(), h.clone(), n.clone(), a.clone(), b.clone(), x.clone());
    let (a_out, b_out) = (a.clone(), b.clone());
    // commitment randomness: the library's own size (ln bits), or anywhere in the range Boudot's
    // prover is written for, (-2^40 n, 2^40 n) -- the field is public and the prover's re-draw
    // loops only ever iterate for the large values
    let r_kind = cx.ch.weighted("commitment_randomness", &[4, 1, 1, 1]);
    if r_kind != 0 { cx.count("probe.commitment_randomness_from_the_full_range"); }
    let r_big: Integer = {
        let mag = Integer::from_digits(&zksim_core::prng::bytes_for(seed, b"big-r", 0, (LN as usize + 40) / 8), rug::integer::Order::MsfBe) % ((Integer::from(1) << 40u32) * &n - 1u32);
        match r_kind { 1 => mag, 2 => -mag, _ => ((Integer::from(1) << 40u32) * &n - 2u32) * (if seed & 1 == 0 { 1 } else { -1 }) }
    };
    cx.step(prover, "commit+prove", opts, move || {
        let r = if r_kind == 0 { zkryptium::utils::random::random_bits(LN) } else { r_big };
        let e = (pow(&g1, &x1, &n1) * pow(&h1, &r, &n1)) % &n1;
        let c = CL03Commitment { value: e.clone(), randomness: r.clone() };
        let p = Boudot2000RangeProof::prove::<H>(&x1, &c, &g1, &h1, &n1, &a1, &b1);
        (e, r, serde_json::to_string(&p).unwrap())
    }, move |cx, st| {
        let (e, _r, proof_json) = match st.out { Ok(t) => t, Err(c) => { cx.violation("C16", "prove/failed-for-in-range-value".into(), format!("x kind {xk}, width kind {wk}: {c:?}")); return; } };
        let f = RangeFrame { g: g.clone(), h: h.clone(), n: n.clone(), a: a.clone(), b: b.clone(), e_expected: e.clone(), proof_json: proof_json.clone() };
        deliver(cx, verifier, f.clone(), "none".into(), true);
        // other bounds / bases / modulus at the verifier
        for (name, (a2, b2)) in [("bounds:a+1", (Integer::from(&a + 1u32), b.clone())), ("bounds:b-1", (a.clone(), Integer::from(&b - 1u32))), ("bounds:shifted", (Integer::from(&a + &width) + 1u32, Integer::from(&b + &width) + 1u32)), ("bounds:a-1", (Integer::from(&a - 1u32), b.clone())), ("bounds:b+1", (a.clone(), Integer::from(&b + 1u32)))] {
            if a2 >= b2 { continue; }
            let mut q = f.clone(); q.a = a2; q.b = b2; deliver(cx, verifier, q, name.into(), false);
        }
        { let mut q = f.clone(); q.g = key.cpk.g_bases[1].clone(); deliver(cx, verifier, q, "misroute_base_g".into(), false); }
        { let mut q = f.clone(); q.h = key.cpk2.h.clone(); deliver(cx, verifier, q, "misroute_base_h".into(), false); }
        { let mut q = f.clone(); std::mem::swap(&mut q.g, &mut q.h); deliver(cx, verifier, q, "bases_swapped".into(), false); }
        if let Some(other) = other_pool_key(key.idx) { let mut q = f.clone(); q.n = other.pk.N.clone(); deliver(cx, verifier, q, "misroute_modulus".into(), false); }
        { let mut q = f.clone(); q.n += 2; deliver(cx, verifier, q, "modulus:+2".into(), false); }
        { let mut q = f.clone(); q.e_expected = (Integer::from(&e * &g)) % &n; deliver(cx, verifier, q, "other_commitment_at_verifier".into(), false); }
        // every integer leaf of the proof
        let v: Value = serde_json::from_str(&proof_json).unwrap();
        let ls = leaves(&v);
        cx.add("n.proof_leaves", ls.len() as u64);
        for k in 0..ls.len() {
            let ps = perturbations_mod(&ls, k, &n);
            let picks: Vec<usize> = if cx.thorough { (0..ps.len()).collect() } else { vec![cx.ch.choose("perturbation", ps.len() as u64) as usize] };
            for pick in picks {
                let (pname, edits) = &ps[pick];
                let mut v2 = v.clone();
                for (p, xx) in edits { set_leaf(&mut v2, p, xx); }
                let mut q = f.clone();
                q.proof_json = v2.to_string();
                deliver(cx, verifier, q, format!("leaf:{}:{pname}", generic_path(&ls[k].0)), false);
            }
        }
        // Mallory: transplant the sub-proofs onto a commitment to an out-of-range / unknown value
        let t_exp = 2 * (128 + 40 + 1) + Integer::from(&b - &a).significant_bits();
        let two_t = Integer::from(1) << t_exp;
        let sq = Integer::from(Integer::from(&b - &a).sqrt_ref());
        let shift = (Integer::from(1) << (40 + 128 + t_exp / 2 + 1)) * &sq;
        let aa = Integer::from(&two_t * &a) - &shift;
        let bb = Integer::from(&two_t * &b) + &shift;
        let gpow = |e: &Integer| -> Integer { if *e >= 0 { pow(&g, e, &n) } else { pow(&Integer::from(g.invert_ref(&n).unwrap()), &Integer::from(-e), &n) } };
        let targets: Vec<(&str, Integer)> = vec![
            ("a-1", (gpow(&Integer::from(&a - 1u32)) * pow(&h, &Integer::from(12345), &n)) % &n),
            ("b+1", (gpow(&Integer::from(&b + 1u32)) * pow(&h, &Integer::from(54321), &n)) % &n),
            ("a-2^k", (gpow(&(Integer::from(&a - (Integer::from(1) << 200u32)))) * pow(&h, &Integer::from(777), &n)) % &n),
            ("random-group-element", pow(&key.cpk.g_bases[2], &Integer::from(987654321u64), &n)),
        ];
        for (tname, e2) in targets {
            let mut v2 = v.clone();
            let e2p = pow(&e2, &two_t, &n);
            let ea = divm(&e2p, &gpow(&aa), &n);
            let eb = divm(&gpow(&bb), &e2p, &n);
            let ea2 = int_of(&v["proof_of_tolerance"]["E_a_2"]).unwrap();
            let eb2 = int_of(&v["proof_of_tolerance"]["E_b_2"]).unwrap();
            set_leaf(&mut v2, "E", &e2);
            set_leaf(&mut v2, "E_prime", &e2p);
            set_leaf(&mut v2, "proof_of_tolerance.E_a_1", &divm(&ea, &ea2, &n));
            set_leaf(&mut v2, "proof_of_tolerance.E_b_1", &divm(&eb, &eb2, &n));
            let mut q = f.clone();
            q.e_expected = e2.clone();
            q.proof_json = v2.to_string();
            deliver(cx, verifier, q, format!("forged_transplant:{tname}"), false);
        }
        // Mallory: RE-TARGETING.  From an honest proof for E = g^x h^r, without any secret, a proof for
        // E * g^delta (a commitment to x + delta): E and E' are shifted, the second halves of the
        // decomposition absorb the shift (E_a_2 * g^(2^T delta), E_b_2 * g^(-2^T delta)) and the two
        // responses D_1 move by +-c * 2^T * delta.  Every equation of the verifier still holds; only
        // the interval it allows for D_1 stands in the way.  delta is chosen so that x + delta lies
        // OUTSIDE [a, b] (just outside, or by about 2^20).
        {
            let m128 = Integer::from(1) << 128u32;
            let mut deltas: Vec<(&str, Integer)> = vec![("to:a-1", Integer::from(&a - 1u32) - &x), ("to:b+1", Integer::from(&b + 1u32) - &x), ("to:a-2^20", Integer::from(&a - (1u32 << 20)) - &x), ("to:b+2^20", Integer::from(&b + (1u32 << 20)) - &x)];
            deltas.retain(|(_, d)| *d != 0);
            for (dname, delta) in deltas {
                let sh = Integer::from(&two_t * &delta);
                let mut v2 = v.clone();
                let get = |v: &Value, p: &str| leaves(v).into_iter().find(|(q, _)| q == p).map(|(_, x)| x);
                let (Some(e0), Some(ep), Some(ea2), Some(eb2), Some(ca), Some(cb), Some(da), Some(db)) = (get(&v, "E"), get(&v, "E_prime"), get(&v, "proof_of_tolerance.E_a_2"), get(&v, "proof_of_tolerance.E_b_2"), get(&v, "proof_of_tolerance.proof_large_i_a.C"), get(&v, "proof_of_tolerance.proof_large_i_b.C"), get(&v, "proof_of_tolerance.proof_large_i_a.D_1"), get(&v, "proof_of_tolerance.proof_large_i_b.D_1")) else { break };
                let e_new = Integer::from(&e0 * &gpow(&delta)) % &n;
                set_leaf(&mut v2, "E", &e_new);
                set_leaf(&mut v2, "E_prime", &(Integer::from(&ep * &gpow(&sh)) % &n));
                set_leaf(&mut v2, "proof_of_tolerance.E_a_2", &(Integer::from(&ea2 * &gpow(&sh)) % &n));
                set_leaf(&mut v2, "proof_of_tolerance.E_b_2", &(Integer::from(&eb2 * &gpow(&Integer::from(-&sh))) % &n));
                set_leaf(&mut v2, "proof_of_tolerance.proof_large_i_a.D_1", &Integer::from(&da + Integer::from(&ca % &m128) * &sh));
                set_leaf(&mut v2, "proof_of_tolerance.proof_large_i_b.D_1", &Integer::from(&db - Integer::from(&cb % &m128) * &sh));
                let mut q = f.clone();
                q.e_expected = e_new;
                q.proof_json = v2.to_string();
                deliver(cx, verifier, q, format!("forged_retarget:{dname}"), false);
            }
            // the same construction FAR outside (delta = +-(b + 1) * 2^200): beyond any tolerance the
            // interval test on D_1 can have -- only that test refuses these
            let far = Integer::from(&b + 1u32) << 200u32;
            let get = |v: &Value, p: &str| leaves(v).into_iter().find(|(q, _)| q == p).map(|(_, x)| x);
            for (dname, delta) in [("far-above", far.clone()), ("far-below", Integer::from(-&far))] {
                let sh = Integer::from(&two_t * &delta);
                let mut v2 = v.clone();
                let (Some(e0), Some(ep), Some(ea2), Some(eb2), Some(ca), Some(cb), Some(da), Some(db)) = (get(&v, "E"), get(&v, "E_prime"), get(&v, "proof_of_tolerance.E_a_2"), get(&v, "proof_of_tolerance.E_b_2"), get(&v, "proof_of_tolerance.proof_large_i_a.C"), get(&v, "proof_of_tolerance.proof_large_i_b.C"), get(&v, "proof_of_tolerance.proof_large_i_a.D_1"), get(&v, "proof_of_tolerance.proof_large_i_b.D_1")) else { break };
                let e_new = Integer::from(&e0 * &gpow(&delta)) % &n;
                set_leaf(&mut v2, "E", &e_new);
                set_leaf(&mut v2, "E_prime", &(Integer::from(&ep * &gpow(&sh)) % &n));
                set_leaf(&mut v2, "proof_of_tolerance.E_a_2", &(Integer::from(&ea2 * &gpow(&sh)) % &n));
                set_leaf(&mut v2, "proof_of_tolerance.E_b_2", &(Integer::from(&eb2 * &gpow(&Integer::from(-&sh))) % &n));
                set_leaf(&mut v2, "proof_of_tolerance.proof_large_i_a.D_1", &Integer::from(&da + Integer::from(&ca % &m128) * &sh));
                set_leaf(&mut v2, "proof_of_tolerance.proof_large_i_b.D_1", &Integer::from(&db - Integer::from(&cb % &m128) * &sh));
                let mut q = f.clone();
                q.e_expected = e_new;
                q.proof_json = v2.to_string();
                deliver(cx, verifier, q, format!("forged_far_retarget:{dname}"), false);
            }
            // Mallory: the MIRROR image.  E* = g^(a+b) / E commits to a + b - x (with randomness -r):
            // also inside [a, b], but Mallory knows neither x nor r.  With E'* = E*^(2^T) the a-side of
            // the new statement is the b-side of the old one and vice versa, so the eight a- / b-side
            // members are swapped and nothing else changes: a proof for a commitment nobody opened
            if x != Integer::from(&a + &b) - &x {
                let mut v2 = v.clone();
                if let Some(e0) = get(&v, "E") {
                    if let Ok(inv) = e0.clone().invert(&n) {
                        let e_new = Integer::from(gpow(&Integer::from(&a + &b)) * inv) % &n;
                        set_leaf(&mut v2, "E", &e_new);
                        set_leaf(&mut v2, "E_prime", &pow(&e_new, &two_t, &n));
                        if let Some(serde_json::Value::Object(pt)) = v2.get_mut("proof_of_tolerance") {
                            for (ka, kb) in [("E_a_1", "E_b_1"), ("E_a_2", "E_b_2"), ("proof_of_square_a", "proof_of_square_b"), ("proof_large_i_a", "proof_large_i_b")] {
                                let (xa, xb) = (pt.get(ka).cloned(), pt.get(kb).cloned());
                                if let (Some(xa), Some(xb)) = (xa, xb) { pt.insert(ka.to_string(), xb); pt.insert(kb.to_string(), xa); }
                            }
                        }
                        let mut q = f.clone();
                        q.e_expected = e_new;
                        q.proof_json = v2.to_string();
                        cx.count("probe.mirror_image_of_an_honest_proof");
                        deliver(cx, verifier, q, "forged_mirror:a+b-x".into(), false);
                    }
                }
            }
        }
    });
    // the proof is generic in the hash: the same honest flow with a 64-octet digest (SHA-512)
    {
        let key_h = pool_key(cx.run_index / 48 % POOL_SIZE);
        let (g2, h2, n2) = (key_h.cpk.g_bases[0].clone(), key_h.cpk.h.clone(), key_h.cpk.N.clone());
        if let Some(item) = cx.item() {
            cx.step(prover, "prove+verify-with-sha512", StepOpts { tick_budget: 5000, ..Default::default() }, move || {
                let x = Integer::from(777);
                let r = zkryptium::utils::random::random_bits(LN);
                let c = CL03Commitment { value: (pow(&g2, &x, &n2) * pow(&h2, &r, &n2)) % &n2, randomness: r };
                let (lo, hi) = (Integer::from(10), Integer::from(1000));
                let p = Boudot2000RangeProof::prove::<sha2::Sha512>(&x, &c, &g2, &h2, &n2, &lo, &hi);
                p.verify::<sha2::Sha512>(&g2, &h2, &n2, &lo, &hi)
            }, move |cx, st| {
                cx.cur_item = Some(item);
                cx.eval(&[b"sha512", &item.to_le_bytes()], true);
                cx.count("fault.other_hash_instantiation");
                match st.out { Ok(true) => cx.count("verdict.MustAccept.accept"), other => cx.violation("C16", "verify/MustAccept-not-accepted/sha512-instantiation".into(), format!("777 in [10, 1000], prove::<Sha512> / verify::<Sha512>: {other:?}")) }
                cx.cur_item = None;
            });
        }
    }
    // a hostile or careless caller first: intervals the prover cannot serve (upper bound <= 0,
    // bounds reversed) -- whatever those calls do (they may panic), an honest proof made by the same
    // process afterwards is produced and accepted
    {
        let key_a = pool_key(cx.run_index / 48 % POOL_SIZE);
        let (g2, h2, n2) = (key_a.cpk.g_bases[0].clone(), key_a.cpk.h.clone(), key_a.cpk.N.clone());
        let Some(item) = cx.item() else { return };
        cx.step(prover, "abuse-then-honest", StepOpts { tick_budget: 2000, ..Default::default() }, move || {
            let mk = |x: &Integer| { let r = zkryptium::utils::random::random_bits(LN); let gx = if *x >= 0 { pow(&g2, x, &n2) } else { pow(&Integer::from(g2.invert_ref(&n2).unwrap()), &Integer::from(-x), &n2) }; CL03Commitment { value: (gx * pow(&h2, &r, &n2)) % &n2, randomness: r } };
            for (x, lo, hi) in [(Integer::from(-5), Integer::from(-10), Integer::from(0)), (Integer::from(7), Integer::from(10), Integer::from(5)), (Integer::from(0), Integer::from(0), Integer::from(0))] {
                let c = mk(&x);
                let (gg, hh, nn) = (g2.clone(), h2.clone(), n2.clone());
                let _ = std::panic::catch_unwind(std::panic::AssertUnwindSafe(move || { let _ = Boudot2000RangeProof::prove::<H>(&x, &c, &gg, &hh, &nn, &lo, &hi); }));
            }
            let x = Integer::from(500);
            let c = mk(&x);
            let p = Boudot2000RangeProof::prove::<H>(&x, &c, &g2, &h2, &n2, &Integer::from(0), &Integer::from(1000));
            p.verify::<H>(&g2, &h2, &n2, &Integer::from(0), &Integer::from(1000))
        }, move |cx, st| {
            cx.cur_item = Some(item);
            cx.eval(&[b"abuse-then-honest", &item.to_le_bytes()], true);
            cx.count("fault.unservable_interval_before_an_honest_proof");
            match st.out { Ok(true) => cx.count("verdict.MustAccept.accept"), other => cx.violation("C16", "prove/honest-proof-fails-after-an-unservable-request".into(), format!("500 in [0, 1000] after prove() was asked for [-10, 0], [10, 5] and [0, 0] in the same process: {other:?}")) }
            cx.cur_item = None;
        });
    }
    // out-of-range values: the honest prover must not obtain an accepted proof
    let (a, b) = (a_out, b_out);
    for (oname, xo) in [("a-1", Integer::from(&a - 1u32)), ("b+1", Integer::from(&b + 1u32)), ("far-below", Integer::from(&a - (Integer::from(1) << 300u32))), ("far-above", Integer::from(&b + (Integer::from(1) << 300u32)))] {
        if !cx.ch.chance("try_out_of_range", 1, 2) { continue; }
        let Some(item) = cx.item() else { continue };
        let key2 = pool_key(cx.run_index % POOL_SIZE);
        let (g1, h1, n1, a1, b1) = (key2.cpk.g_bases[0].clone(), key2.cpk.h.clone(), key2.cpk.N.clone(), a.clone(), b.clone());
        // the prover's retry loops report to the simulator (ticks): a prover that neither panics nor
        // returns within 400 re-draws has not produced a proof either
        cx.step(prover, "prove-out-of-range", StepOpts { tick_budget: 400, ..Default::default() }, move || {
            let r = zkryptium::utils::random::random_bits(LN);
            let ginv = Integer::from(g1.invert_ref(&n1).unwrap());
            let gx = if xo >= 0 { pow(&g1, &xo, &n1) } else { pow(&ginv, &Integer::from(-&xo), &n1) };
            let e = (gx * pow(&h1, &r, &n1)) % &n1;
            let c = CL03Commitment { value: e, randomness: r };
            let p = Boudot2000RangeProof::prove::<H>(&xo, &c, &g1, &h1, &n1, &a1, &b1);
            p.verify::<H>(&g1, &h1, &n1, &a1, &b1)
        }, move |cx, st| {
            cx.cur_item = Some(item);
            cx.eval(&[b"oor", oname.as_bytes(), &item.to_le_bytes()], true);
            cx.count("fault.out_of_range_value");
            match st.out {
                Ok(true) => cx.violation("C16", format!("prove/out-of-range-value-accepted/{oname}"), "the honest prover obtained an accepted proof for a value outside [a, b]".into()),
                Ok(false) => cx.count("verdict.MustReject.reject"),
                Err(Crash::Panic(_)) => cx.count("verdict.MustReject.refused-by-panic"),
                Err(Crash::Budget(..)) => cx.count("verdict.MustReject.prover-kept-retrying"),
            }
            cx.cur_item = None;
        });
    }
    cx.run();
    let _: Option<Arc<KeyMat>> = None;
}
