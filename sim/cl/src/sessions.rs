//! The two CL03 protocol sessions every check of C14..C19 is built from, as node actions.
use crate::kit::*;
use rug::Integer;
use serde_json::Value;
use std::sync::Arc;
use zkryptium::cl03::bases::Bases;
use zkryptium::cl03::commitment::CL03Commitment;
use zkryptium::cl03::keys::{CL03CommitmentPublicKey, CL03PublicKey};
use zkryptium::schemes::generics::{BlindSignature, Commitment, PoKSignature, Signature, ZKPoK};
use zkryptium::utils::message::cl03_message::CL03Message;

pub fn msgs_of(v: &[Integer]) -> Vec<CL03Message> { v.iter().map(|m| CL03Message::new(m.clone())).collect() }

// ------------------------------------------------------------------ issuance

/// what the Holder keeps after `commit + prove`
#[derive(Clone)]
pub struct HolderCommit {
    pub c_value: Integer,
    pub c_randomness: Integer,
    pub ct_value: Option<Integer>,
    pub ct_randomness: Option<Integer>,
    pub zk_json: String,
    /// the commitment as the holder's wallet persists it (the library's own serde form)
    pub c_json: String,
}

pub fn holder_commit_and_prove(key: &KeyMat, msgs: &[Integer], hidden: &[usize], trusted: bool) -> HolderCommit {
    holder_commit_and_prove_with(key, msgs, hidden, if trusted { Some(&key.tp_cpk) } else { None })
}

/// `tp`: the trusted party's commitment key, if a trusted-party commitment accompanies C
pub fn holder_commit_and_prove_with(key: &KeyMat, msgs: &[Integer], hidden: &[usize], tp: Option<&CL03CommitmentPublicKey>) -> HolderCommit {
    let m = msgs_of(msgs);
    let bases = Bases(key.bases.0[..msgs.len()].to_vec());
    let c = Commitment::<Sch>::commit_with_pk(&m, &key.pk, &bases, Some(hidden));
    // (a trusted party over a larger modulus than the issuer's suite commits with the randomness
    //  of ITS suite: the commitment and key types are suite-agnostic)
    let ct = tp.map(|tp| if tp.N.significant_bits() > LN + 100 {
        let c = Commitment::<zkryptium::schemes::algorithms::CL03<zkryptium::cl03::ciphersuites::CL2048Sha256>>::commit_with_commitment_pk(&m, tp, Some(hidden));
        Commitment::<Sch>::CL03(CL03Commitment { value: c.value().clone(), randomness: c.randomness().clone() })
    } else { Commitment::<Sch>::commit_with_commitment_pk(&m, tp, Some(hidden)) });
    let zk = ZKPoK::<Sch>::generate_proof(&m, c.cl03Commitment(), ct.as_ref().map(|x| x.cl03Commitment()), &key.pk, &bases, tp, hidden);
    HolderCommit { c_value: c.value().clone(), c_randomness: c.randomness().clone(), ct_value: ct.as_ref().map(|x| x.value().clone()), ct_randomness: ct.as_ref().map(|x| x.randomness().clone()), zk_json: serde_json::to_string(&zk).unwrap(), c_json: serde_json::to_string(&c).unwrap() }
}

/// ClIssueRequest as it travels: the commitment VALUE only (the issuer-side frame rebuilds the
/// struct with randomness 0), the proof JSON, the revealed attributes and the index lists
#[derive(Clone)]
pub struct IssueRequest {
    pub pk: CL03PublicKey,
    pub bases: Vec<Integer>,
    pub tp_cpk: Option<CL03CommitmentPublicKey>,
    pub c_value: Integer,
    pub ct_value: Option<Integer>,
    pub zk_json: String,
    pub revealed: Vec<Integer>,
    pub revealed_idx: Vec<usize>,
    pub hidden: Vec<usize>,
}

/// the Issuer's handler: (verify_proof result, Some(blind signature JSON) if it signed)
pub fn issuer_handle(key: &KeyMat, r: &IssueRequest) -> (bool, Option<String>) {
    let Ok(zk) = serde_json::from_str::<ZKPoK<Sch>>(&r.zk_json) else { return (false, None) };
    let c = CL03Commitment { value: r.c_value.clone(), randomness: Integer::from(0) };
    let ct = r.ct_value.as_ref().map(|v| CL03Commitment { value: v.clone(), randomness: Integer::from(0) });
    let bases = Bases(r.bases.clone());
    let ok = zk.verify_proof(&c, ct.as_ref(), &r.pk, &bases, r.tp_cpk.as_ref(), &r.hidden);
    // the issuer signs with ITS key, whatever key the request claims
    let rev = msgs_of(&r.revealed);
    let bs = BlindSignature::<Sch>::blind_sign(&r.pk, &key.sk, &bases, &zk, Some(&rev), &c, ct.as_ref(), r.tp_cpk.as_ref(), &r.hidden, Some(&r.revealed_idx));
    (ok, Some(serde_json::to_string(&bs).unwrap()))
}

/// only verify_proof (blind_sign would panic first on a refusal)
pub fn issuer_verify_only(r: &IssueRequest) -> bool {
    let Ok(zk) = serde_json::from_str::<ZKPoK<Sch>>(&r.zk_json) else { return false };
    let c = CL03Commitment { value: r.c_value.clone(), randomness: Integer::from(0) };
    let ct = r.ct_value.as_ref().map(|v| CL03Commitment { value: v.clone(), randomness: Integer::from(0) });
    zk.verify_proof(&c, ct.as_ref(), &r.pk, &Bases(r.bases.clone()), r.tp_cpk.as_ref(), &r.hidden)
}

/// Holder: unblind and verify on the full vector; returns (verifies, signature parts)
pub fn holder_unblind(key: &KeyMat, bs_json: &str, hc: &HolderCommit, full: &[Integer]) -> Result<(bool, (Integer, Integer, Integer)), String> {
    holder_unblind_via(key, bs_json, hc, full, false)
}

/// `from_store`: the holder crashed after sending the request; the commitment (with its opening)
/// comes back from the JSON document the wallet persisted, not from memory
pub fn holder_unblind_via(key: &KeyMat, bs_json: &str, hc: &HolderCommit, full: &[Integer], from_store: bool) -> Result<(bool, (Integer, Integer, Integer)), String> {
    let bs: BlindSignature<Sch> = serde_json::from_str(bs_json).map_err(|e| e.to_string())?;
    let c = if from_store { serde_json::from_str::<Commitment<Sch>>(&hc.c_json).map_err(|e| format!("the stored commitment does not parse: {e}"))? } else { Commitment::<Sch>::CL03(CL03Commitment { value: hc.c_value.clone(), randomness: hc.c_randomness.clone() }) };
    let sig = bs.unblind_sign(&c);
    let ok = sig.verify_multiattr(&key.pk, &Bases(key.bases.0[..full.len()].to_vec()), &msgs_of(full));
    Ok((ok, crate::scen_sig::sig_parts(&sig)))
}

/// Issuer: re-issue after revealed attributes changed (same e, same rprime)
pub fn issuer_update(key: &KeyMat, bs_json: &str, c_value: &Integer, n: usize, revealed: &[Integer], revealed_idx: &[usize]) -> Result<String, String> {
    let bs: BlindSignature<Sch> = serde_json::from_str(bs_json).map_err(|e| e.to_string())?;
    let c = CL03Commitment { value: c_value.clone(), randomness: Integer::from(0) };
    let up = bs.update_signature(Some(&msgs_of(revealed)), &c, &key.sk, &key.pk, &Bases(key.bases.0[..n].to_vec()), Some(revealed_idx));
    Ok(serde_json::to_string(&up).unwrap())
}

// ------------------------------------------------------------------ presentation

pub fn issue_plain(key: &KeyMat, msgs: &[Integer]) -> (Integer, Integer, Integer) {
    let sig = Signature::<Sch>::sign_multiattr(&key.pk, &key.sk, &Bases(key.bases.0[..msgs.len()].to_vec()), &msgs_of(msgs));
    crate::scen_sig::sig_parts(&sig)
}

pub fn holder_present(key: &KeyMat, sig: &(Integer, Integer, Integer), msgs: &[Integer], hidden: &[usize]) -> String {
    let s = crate::scen_sig::sig_from_parts(&sig.0, &sig.1, &sig.2).unwrap();
    let p = PoKSignature::<Sch>::proof_gen(s.cl03Signature(), &key.cpk, &key.pk, &Bases(key.bases.0[..msgs.len()].to_vec()), &msgs_of(msgs), hidden);
    serde_json::to_string(&p).unwrap()
}

#[derive(Clone)]
pub struct Presentation {
    pub pk: CL03PublicKey,
    pub bases: Vec<Integer>,
    pub cpk: CL03CommitmentPublicKey,
    pub proof_json: String,
    pub revealed: Vec<Integer>,
    pub hidden: Vec<usize>,
    pub n: usize,
}

pub fn verifier_handle(p: &Presentation) -> bool {
    let Ok(pok) = serde_json::from_str::<PoKSignature<Sch>>(&p.proof_json) else { return false };
    pok.proof_verify(&p.cpk, &p.pk, &Bases(p.bases.clone()), &msgs_of(&p.revealed), &p.hidden, p.n)
}

pub fn parse(j: &str) -> Value { serde_json::from_str(j).unwrap_or(Value::Null) }
pub fn arc_key(k: &Arc<KeyMat>) -> Arc<KeyMat> { k.clone() }

/// a wide credential (n up to WIDE attributes) signed and presented with the wide bases
pub fn wide_issue_and_present(key: &KeyMat, msgs: &[Integer], hidden: &[usize]) -> ((Integer, Integer, Integer), String) {
    let bases = Bases(key.bases_wide.0[..msgs.len()].to_vec());
    let sig = Signature::<Sch>::sign_multiattr(&key.pk, &key.sk, &bases, &msgs_of(msgs));
    let parts = crate::scen_sig::sig_parts(&sig);
    let p = PoKSignature::<Sch>::proof_gen(sig.cl03Signature(), &key.cpk_wide, &key.pk, &bases, &msgs_of(msgs), hidden);
    (parts, serde_json::to_string(&p).unwrap())
}
pub fn wide_verify(key: &KeyMat, proof_json: &str, revealed: &[Integer], hidden: &[usize], n: usize) -> bool {
    let Ok(pok) = serde_json::from_str::<PoKSignature<Sch>>(proof_json) else { return false };
    pok.proof_verify(&key.cpk_wide, &key.pk, &Bases(key.bases_wide.0[..n].to_vec()), &msgs_of(revealed), hidden, n)
}
