//! C17 and C19: a passive observer on the transport with an omniscient checker.  It sees the
//! serialized issuance proof and the serialized proof of knowledge of a signature exactly as
//! the recipient does, is given every secret of the sender, and evaluates whether the frame
//! hands the recipient an opening (C17) or an insufficiently masked response (C19).
use crate::kit::*;
use crate::sessions::*;
use rug::Integer;
use serde_json::Value;
use std::sync::Arc;
use zksim_core::sim::{Cx, StepOpts};

pub struct Secret { pub kind: String, pub value: Integer }

/// public base pairs (g, h) the recipient knows, with the modulus they live in
pub struct BasePair { pub name: String, pub g: Integer, pub h: Integer, pub n: Integer }

fn base_pairs(key: &KeyMat, n: usize, tp: Option<&zkryptium::cl03::keys::CL03CommitmentPublicKey>) -> Vec<BasePair> {
    let mut v = Vec::new();
    for i in 0..n { v.push(BasePair { name: "(a_i,b)".into(), g: key.bases.0[i].clone(), h: key.pk.b.clone(), n: key.pk.N.clone() }); }
    for i in 0..n { v.push(BasePair { name: "(g_i,h)".into(), g: key.cpk.g_bases[i].clone(), h: key.cpk.h.clone(), n: key.cpk.N.clone() }); }
    if let Some(tp) = tp { for i in 0..n { v.push(BasePair { name: "(g_i,h)tp".into(), g: tp.g_bases[i].clone(), h: tp.h.clone(), n: tp.N.clone() }); } }
    v
}

/// C17 on one frame
pub fn check_openings(cx: &mut Cx, frame: &str, v: &Value, secrets: &[Secret], pairs: &[BasePair], decoy: &Integer, extra_challenges: &[(String, Integer)]) {
    // dictionary attack through the range proofs: a response whose blinding term is zero or a
    // multiple of 2^64 satisfies response = challenge * witness(candidate) (mod 2^64) for the
    // committed value and for no other candidate
    check_range_blinders(cx, "C17", frame, v, secrets);
    check_range_dictionary(cx, frame, v, secrets, decoy);
    let objs = commitment_objects(v);
    // dictionary attack without any randomness: an integer of the frame that is a multiple (over
    // the integers) of g^m mod N for the committed m and not for the decoy identifies m
    {
        let ls = leaves(v);
        let floor = Integer::from(1) << 64u32;
        for bp in pairs {
            for s in secrets.iter().filter(|s| s.kind == "hidden-attribute" && s.value >= 0) {
                let a_true = pow(&bp.g, &s.value, &bp.n);
                let a_decoy = pow(&bp.g, decoy, &bp.n);
                if a_true <= floor { continue; }
                for (path, x) in &ls {
                    if *x <= a_true { continue; }
                    cx.count("n.divisibility_tests");
                    if x.is_divisible(&a_true) && !x.is_divisible(&a_decoy) {
                        cx.violation("C17", format!("{frame}/{}/dictionary-by-divisibility/{}/{}", generic_path(path), s.kind, bp.name), format!("{path} is an integer multiple of g^m mod N for the committed attribute (and not for the decoy) under {}: two candidates are told apart without any randomness", bp.name));
                    }
                }
            }
        }
    }
    cx.add("n.commitment_objects_scanned", objs.len() as u64);
    for (path, value, randomness) in &objs {
        let gp = generic_path(path);
        for bp in pairs {
            if randomness < &Integer::from(0) { continue; }
            let hr = pow(&bp.h, randomness, &bp.n);
            let hinv = match hr.clone().invert(&bp.n) { Ok(x) => x, Err(_) => continue };
            let stripped = Integer::from(value * &hinv) % &bp.n; // value * h^(-randomness) = g^x ?
            for s in secrets {
                if s.value < 0 { continue; }
                cx.count("n.opening_tests");
                if pow(&bp.g, &s.value, &bp.n) == stripped {
                    cx.violation("C17", format!("{frame}/{gp}/opens/{}/{}", s.kind, bp.name), format!("{path}: value == g^{} * h^randomness under {}: the recipient can confirm a guessed {} by recomputing the commitment", s.kind, bp.name, s.kind));
                }
            }
            // dictionary test with two candidates: the committed one must not be identifiable
            if let Some(m) = secrets.iter().find(|s| s.kind == "hidden-attribute") {
                let t_true = pow(&bp.g, &m.value, &bp.n) == stripped;
                let t_decoy = pow(&bp.g, decoy, &bp.n) == stripped;
                if t_true != t_decoy { cx.count("n.dictionary_distinguishers"); }
            }
            // recover v: value * g^(-randomness)
            let gr = pow(&bp.g, randomness, &bp.n);
            if let Ok(ginv) = gr.invert(&bp.n) {
                let cand = Integer::from(value * &ginv) % &bp.n;
                for s in secrets.iter().filter(|s| s.kind == "signature-v") {
                    if cand == s.value { cx.violation("C17", format!("{frame}/{gp}/recovers/signature-v/{}", bp.name), format!("{path}: value * g^(-randomness) == v: the recipient recovers the signature component v")); }
                }
            }
        }
    }
    // the same opening randomness used for two commitments of one frame (their quotient is then a
    // commitment without blinding: g_i^m_i / g_j^m_j)
    for (i, (pa, _, ra)) in objs.iter().enumerate() {
        for (pb, _, rb) in objs.iter().skip(i + 1) {
            if ra == rb && ra.significant_bits() > 64 {
                cx.violation("C17", format!("{frame}/randomness-reused/{}={}", generic_path(pa), generic_path(pb)), format!("{pa} and {pb} carry the same randomness"));
            }
        }
    }
    // two responses of one array whose difference is an exact multiple of a challenge, the quotient
    // being the difference of two hidden attributes (both were masked with the same nonce)
    {
        let ls = leaves(v);
        let hidden: Vec<&Integer> = secrets.iter().filter(|s| s.kind == "hidden-attribute").map(|s| &s.value).collect();
        let chals: Vec<Integer> = ls.iter().filter(|(p, _)| { let l = p.rsplit('.').next().unwrap_or(""); l == "challenge" || l == "C" }).map(|(_, x)| x.clone()).collect();
        for (i, (pa, xa)) in ls.iter().enumerate() {
            if !pa.ends_with(']') { continue; }
            for (pb, xb) in ls.iter().skip(i + 1) {
                if generic_path(pa) != generic_path(pb) { continue; }
                let d = Integer::from(xa - xb);
                if d == 0 { cx.violation("C17", format!("{frame}/{}/responses-equal", generic_path(pa)), format!("{pa} == {pb}")); continue; }
                for c in &chals {
                    if *c <= 1 || !d.is_divisible(c) { continue; }
                    let q = Integer::from(&d / c);
                    for (k, ma) in hidden.iter().enumerate() { for mb in hidden.iter().skip(k + 1) {
                        let dm = Integer::from(*ma - *mb);
                        if q == dm || q == Integer::from(-&dm) { cx.violation("C17", format!("{frame}/{}/recovers-difference/hidden-attributes", generic_path(pa)), format!("({pa} - {pb}) / challenge equals the difference of two hidden attributes exactly")); }
                    } }
                }
            }
        }
    }
    // secrets recoverable by one exact division of a leaf by a challenge or by 1 + challenge
    let ls = leaves(v);
    let mut chals: Vec<(String, Integer)> = ls.iter().filter(|(p, _)| { let l = p.rsplit('.').next().unwrap_or(""); l == "challenge" || l == "C" }).map(|(p, x)| (generic_path(p), x.clone())).collect();
    chals.extend(extra_challenges.iter().cloned());
    for (path, x) in &ls {
        for (cp, c) in &chals {
            for (dn, d) in [("c", c.clone()), ("1+c", Integer::from(c + 1u32))] {
                if d <= 1 || !x.is_divisible(&d) { continue; }
                let q = Integer::from(x / &d);
                for s in secrets {
                    if q == s.value && s.value.significant_bits() > 64 {
                        cx.violation("C17", format!("{frame}/{}/recovers-by-division/{}", generic_path(path), s.kind), format!("{path} / ({dn} with c = {cp}) equals the sender's {} exactly", s.kind));
                    }
                }
            }
        }
    }
    // secrets in clear among the integer leaves
    cx.add("n.integer_leaves_scanned", ls.len() as u64);
    for (path, x) in &ls {
        for s in secrets {
            if *x == s.value && s.value.significant_bits() > 64 {
                cx.violation("C17", format!("{frame}/{}/in-clear/{}", generic_path(path), s.kind), format!("{path} equals the sender's {}", s.kind));
            }
        }
    }
}

/// C19 on one frame: responses divided by recomputable challenges / other responses
pub fn check_masking(cx: &mut Cx, frame: &str, v: &Value, secrets: &[Secret], extra_challenges: &[(String, Integer)]) {
    let mut h = History::default();
    check_masking_h(cx, frame, "this frame", v, secrets, extra_challenges, &mut h)
}

pub fn check_masking_h(cx: &mut Cx, frame: &str, origin: &str, v: &Value, secrets: &[Secret], extra_challenges: &[(String, Integer)], hist: &mut History) {
    check_range_roots(cx, frame, v, secrets);
    check_range_blinders(cx, "C19", frame, v, secrets);
    let ls = leaves(v);
    let bound = Integer::from(1) << 64u32;
    // candidate challenges: every leaf named challenge / C (and C mod 2^128), plus recomputed ones
    let mut chals: Vec<(String, Integer)> = Vec::new();
    for (p, x) in &ls {
        let last = p.rsplit('.').next().unwrap_or("");
        if last == "challenge" { chals.push((generic_path(p), x.clone())); }
        if last == "C" { chals.push((generic_path(p), x.clone())); chals.push((format!("{}%2^128", generic_path(p)), Integer::from(x.keep_bits_ref(128)))); }
    }
    chals.extend(extra_challenges.iter().cloned());
    let responses: Vec<(String, &Integer)> = ls.iter().filter(|(p, x)| { let last = p.rsplit('.').next().unwrap_or(""); *x > 0 && last != "challenge" && last != "C" && last != "value" && last != "randomness" && !last.starts_with('E') && last != "F" && last != "t" }).map(|(p, x)| (generic_path(p), x)).collect();
    cx.add("n.responses_scanned", responses.len() as u64);
    for (rp, s) in &responses {
        for (cp, c) in &chals {
            if *c <= 0 { continue; }
            let q = Integer::from(*s / c);
            for x in secrets {
                // a short secret (0, 42, a timestamp) is within 2^64 of ANY small quotient: for those
                // only the challenge of the response's own sub-proof is a meaningful divisor
                if x.value.significant_bits() <= 128 && !same_subproof(rp, cp) { continue; }
                cx.count("n.division_tests");
                if Integer::from(&q - &x.value).abs() < bound {
                    cx.violation("C19", format!("{frame}/{rp}/div/{cp}/{}", x.kind), format!("floor({rp} / {cp}) is within 2^64 of the sender's {} (difference {})", x.kind, Integer::from(&q - &x.value)));
                }
                // the blinding term itself, recomputed by the omniscient checker: never zero and
                // never the secret it is meant to mask
                if x.value.significant_bits() > 64 && same_subproof(rp, cp) {
                    let blinder = Integer::from(*s - Integer::from(c * &x.value));
                    if blinder == 0 { cx.violation("C19", format!("{frame}/{rp}/blinder-is-zero/{cp}/{}", x.kind), format!("{rp} = {cp} * {} exactly: no blinding term at all", x.kind)); }
                    if blinder == x.value { cx.violation("C19", format!("{frame}/{rp}/blinder-is-the-secret/{cp}/{}", x.kind), format!("{rp} = (1 + {cp}) * {}: the blinding term is the secret itself", x.kind)); }
                    // ... and never used twice (in this frame under another challenge, or in another
                    // frame of the run): two responses with one blinder give (s - s') / (c - c') = x
                    if blinder > 0 && !x.kind.starts_with("opening-randomness-of:") {
                        let concrete = ls.iter().find(|(_, x)| std::ptr::eq(x, *s)).map(|(p, _)| p.clone()).unwrap_or_else(|| rp.clone());
                        let here = format!("{origin}:{concrete}");
                        if let Some(prev) = hist.blinders.get(&blinder.to_string_radix(16)) { if *prev != here { cx.violation("C19", format!("{frame}/{rp}/blinder-reused/{}", x.kind), format!("the blinding term of {here} (for the sender's {}) was already used by {prev}: the difference of the two responses divided by the difference of their challenges is the secret", x.kind)); } }
                        else { hist.blinders.insert(blinder.to_string_radix(16), here); }
                    }
                }
            }
        }
        for (rp2, s2) in &responses {
            if rp == rp2 && std::ptr::eq(*s, *s2) { continue; }
            let q = Integer::from(*s / *s2);
            if q.significant_bits() <= 64 { continue; } // quotients of similar-size responses say nothing about 256-bit secrets
            for x in secrets.iter().filter(|x| x.value.significant_bits() > 128) {
                cx.count("n.division_tests");
                if Integer::from(&q - &x.value).abs() < bound {
                    cx.violation("C19", format!("{frame}/{rp}/div/{rp2}/{}", x.kind), format!("floor({rp} / {rp2}) is within 2^64 of the sender's {} (difference {})", x.kind, Integer::from(&q - &x.value)));
                }
            }
        }
    }
}

/// C19 inside the range proofs: the two proofs of square of a Boudot proof answer for the integer
/// ROOT of 2^T (x - a) + tolerance (side a) and of 2^T (b - x) + tolerance (side b).  The map from
/// the root back to x is public (square, shift by T, add a / subtract from b), so a response that
/// gives the root away gives x away: floor(d / challenge), squared and mapped back, must stay at
/// least 2^64 from every secret of the sender, for every interval the library proves membership in
pub fn check_range_roots(cx: &mut Cx, frame: &str, v: &Value, secrets: &[Secret]) {
    let ls = leaves(v);
    let bound = Integer::from(1) << 64u32;
    let one = Integer::from(1);
    let intervals: Vec<(Integer, Integer)> = vec![
        (Integer::from(0), Integer::from(&one << 256u32) - 1u32),
        (Integer::from(&one << 257u32) + 1u32, Integer::from(&one << 258u32) - 1u32),
        (Integer::from(0), Integer::from(&one << 1024u32) - 1u32),
        (Integer::from(0), Integer::from(&one << 2048u32) - 1u32),
    ];
    for (p, d) in &ls {
        if !p.ends_with(".proof_ss.d") || !p.contains("proof_of_square_") { continue; }
        let cpath = format!("{}challenge", &p[..p.len() - 1]);
        let Some((_, c)) = ls.iter().find(|(q, _)| *q == cpath) else { continue };
        if *c <= 0 || *d <= 0 { continue; }
        let q = Integer::from(d / c);
        let q2 = Integer::from(&q * &q);
        let side_a = p.contains("proof_of_square_a");
        for (a, b) in &intervals {
            let t_big = 2 * (128 + 40 + 1) + Integer::from(b - a).significant_bits();
            let y = Integer::from(&q2 >> t_big);
            let cand = if side_a { Integer::from(a + &y) } else { Integer::from(b - &y) };
            for x in secrets.iter().filter(|x| x.value.significant_bits() > 128) {
                cx.count("n.range_root_tests");
                if Integer::from(&cand - &x.value).abs() < bound {
                    cx.violation("C19", format!("{frame}/{}/root-div/challenge/{}", generic_path(p), x.kind), format!("floor({p} / challenge)^2 >> {t_big}, mapped back into [a, b], is within 2^64 of the sender's {} (difference {}): the proof of square gives its root away", x.kind, Integer::from(&cand - &x.value)));
                }
            }
        }
    }
}

/// the witnesses the library derives for a range proof of `value` in [a, b] (Boudot with the
/// factor 2^T): roots and remainders of 2^T (value - a) + tolerance and 2^T (b - value) + tolerance
fn range_witnesses(value: &Integer, a: &Integer, b: &Integer) -> Option<[Integer; 4]> {
    if value < a || value > b { return None; }
    let width = Integer::from(b - a);
    let t_big = 2 * (128 + 40 + 1) + width.significant_bits();
    let tol = (Integer::from(1) << (40 + 128 + t_big / 2 + 1)) * width.sqrt();
    let x = Integer::from(value << t_big);
    let aa = Integer::from(a << t_big) - &tol;
    let bb = Integer::from(b << t_big) + &tol;
    let (x_a, x_b) = (Integer::from(&x - &aa), Integer::from(&bb - &x));
    let (x_a_1, x_b_1) = (x_a.clone().sqrt(), x_b.clone().sqrt());
    let x_a_2 = x_a - Integer::from(&x_a_1 * &x_a_1);
    let x_b_2 = x_b - Integer::from(&x_b_1 * &x_b_1);
    Some([x_a_1, x_a_2, x_b_1, x_b_2])
}

/// C19 inside the range proofs, second part: the omniscient checker derives the four witnesses of
/// every range proof about a long secret and recomputes the blinding term of the four responses
/// that answer for them (proof_ss.d of the two proofs of square, D_1 of the two larger-interval
/// proofs): never zero, never negative, and never STRUCTURED -- a blinder whose low 64 bits are all
/// zero (a multiple of a power of two) leaves the low bits of response = blinder + c * witness
/// unmasked, and the witness is then read off the response modulo that power of two
pub fn check_range_blinders(cx: &mut Cx, prop: &str, frame: &str, v: &Value, secrets: &[Secret]) {
    let ls = leaves(v);
    let one = Integer::from(1);
    let intervals: Vec<(Integer, Integer)> = vec![
        (Integer::from(0), Integer::from(&one << 256u32) - 1u32),
        (Integer::from(&one << 257u32) + 1u32, Integer::from(&one << 258u32) - 1u32),
    ];
    let get = |p: &str| ls.iter().find(|(q, _)| q == p).map(|(_, x)| x.clone());
    for (p, _) in &ls {
        // one range proof = one object with an E_prime leaf
        let Some(root) = p.strip_suffix(".E_prime") else { continue };
        for (a, b) in &intervals {
            for x in secrets.iter().filter(|x| x.value.significant_bits() > 128 && (x.kind == "hidden-attribute" || x.kind == "signature-e")) {
                let Some(w) = range_witnesses(&x.value, a, b) else { continue };
                let sites = [
                    (format!("{root}.proof_of_tolerance.proof_of_square_a.proof_ss.d"), format!("{root}.proof_of_tolerance.proof_of_square_a.proof_ss.challenge"), &w[0], false),
                    (format!("{root}.proof_of_tolerance.proof_large_i_a.D_1"), format!("{root}.proof_of_tolerance.proof_large_i_a.C"), &w[1], true),
                    (format!("{root}.proof_of_tolerance.proof_of_square_b.proof_ss.d"), format!("{root}.proof_of_tolerance.proof_of_square_b.proof_ss.challenge"), &w[2], false),
                    (format!("{root}.proof_of_tolerance.proof_large_i_b.D_1"), format!("{root}.proof_of_tolerance.proof_large_i_b.C"), &w[3], true),
                ];
                for (rp, cp, wit, low128) in sites {
                    let (Some(resp), Some(c)) = (get(&rp), get(&cp)) else { continue };
                    let c = if low128 { Integer::from(c.keep_bits_ref(128)) } else { c };
                    let blinder = Integer::from(&resp - Integer::from(&c * wit));
                    cx.count("n.range_blinders_recomputed");
                    // (for a secret that is not the one this range proof is about the difference is a
                    //  meaningless large number of either sign: only the two sharp tests apply)
                    if blinder == 0 { cx.violation(prop, format!("{frame}/{}/blinder-is-zero/range-witness/{}", generic_path(&rp), x.kind), format!("{rp} = challenge * witness exactly (witness of the range proof about the sender's {})", x.kind)); }
                    else if blinder > 0 && blinder.find_one(0).unwrap_or(0) >= 64 {
                        cx.violation(prop, format!("{frame}/{}/blinder-structured/range-witness/{}", generic_path(&rp), x.kind), format!("the blinding term of {rp} is a multiple of 2^{}: {rp} mod 2^64 = (challenge * witness) mod 2^64, the low bits of the witness of the range proof about the sender's {} are not masked", blinder.find_one(0).unwrap_or(0), x.kind));
                    }
                }
            }
        }
    }
}

/// C17 through the range proofs, third part: a DICTIONARY attack by nearest root.  The recipient
/// holds two candidates for a committed value (the real one and a decoy), derives the root each
/// would give, and compares both with floor(proof_ss.d / proof_ss.challenge).  If the blinding
/// term is large enough the noise of that quotient (blinder / challenge) exceeds the distance of
/// the two roots and says nothing; if the noise is 2^16 times smaller than the distance, the
/// nearer candidate is the committed one
pub fn check_range_dictionary(cx: &mut Cx, frame: &str, v: &Value, secrets: &[Secret], decoy: &Integer) {
    let ls = leaves(v);
    let one = Integer::from(1);
    let get = |p: &str| ls.iter().find(|(q, _)| q == p).map(|(_, x)| x.clone());
    for (p, _) in &ls {
        let Some(root) = p.strip_suffix(".E_prime") else { continue };
        for x in secrets.iter().filter(|x| x.value.significant_bits() > 128 && (x.kind == "hidden-attribute" || x.kind == "signature-e")) {
            // the interval this kind of secret is range-proved in, and a decoy inside it
            let (a, b, other) = if x.kind == "signature-e" {
                let a = Integer::from(&one << 257u32) + 1u32;
                let other = Integer::from(&a + Integer::from(decoy.keep_bits_ref(256)));
                (a, Integer::from(&one << 258u32) - 1u32, other)
            } else { (Integer::from(0), Integer::from(&one << 256u32) - 1u32, decoy.clone()) };
            let (Some(wt), Some(wd)) = (range_witnesses(&x.value, &a, &b), range_witnesses(&other, &a, &b)) else { continue };
            for (side, k) in [("a", 0usize), ("b", 2)] {
                let (Some(d), Some(c)) = (get(&format!("{root}.proof_of_tolerance.proof_of_square_{side}.proof_ss.d")), get(&format!("{root}.proof_of_tolerance.proof_of_square_{side}.proof_ss.challenge"))) else { continue };
                if c <= 0 { continue; }
                let q = Integer::from(&d / &c);
                let noise = Integer::from(&q - &wt[k]).abs();
                let gap = Integer::from(&wt[k] - &wd[k]).abs();
                // (for a range proof about ANOTHER secret the "noise" is the distance of two unrelated
                //  roots, as large as the gap: the test does not fire)
                cx.count("n.nearest_root_tests");
                if gap > 0 && Integer::from(&noise << 16u32) < gap {
                    cx.violation("C17", format!("{frame}/{}/dictionary-by-nearest-root/{}", generic_path(&format!("{root}.proof_of_tolerance.proof_of_square_{side}.proof_ss.d")), x.kind), format!("floor(d / challenge) of {root}.proof_of_square_{side} is 2^{} away from the root the committed {} gives and 2^{} from the decoy's: the blinding term is too short for the challenge, two candidate values are told apart", noise.significant_bits(), x.kind, gap.significant_bits()));
                }
            }
        }
    }
}

/// what the monitor remembers across the frames of one run
#[derive(Default)]
pub struct History {
    /// recomputed blinding terms (hex) -> where first seen
    blinders: std::collections::BTreeMap<String, String>,
    /// (pair of field paths, product or quotient of the two group elements) -> frame first seen in
    combos: std::collections::BTreeMap<(String, String), String>,
}

fn is_group_element(path: &str) -> bool {
    let l = path.rsplit('.').next().unwrap_or("");
    let l = l.split('[').next().unwrap_or(l);
    matches!(l, "value" | "t" | "E" | "F" | "E_a_1" | "E_a_2" | "E_b_1" | "E_b_2" | "E_prime")
}
/// the sub-proof a leaf belongs to: its path up to the second component (array index kept)
fn component(path: &str) -> &str {
    let p = path.strip_prefix("CL03.").unwrap_or(path);
    let off = path.len() - p.len();
    let end = p.find('.').unwrap_or(p.len());
    &path[..off + end]
}

/// C17 across frames: several honest proofs about the SAME secrets must not share a group element,
/// nor a product or a quotient of two group elements of one sub-proof -- a combination in which the
/// blinding cancels is a deterministic function of the hidden value, so that a guess is confirmed
/// (and two presentations are linked) by recomputing it
pub fn check_combinations(cx: &mut Cx, frame: &str, origin: &str, v: &Value, n: &Integer, hist: &mut History) {
    let ls: Vec<(String, Integer)> = leaves(v).into_iter().filter(|(p, x)| is_group_element(p) && *x > 1).collect();
    cx.add("n.group_elements_combined", ls.len() as u64);
    let mut see = |cx: &mut Cx, key: String, val: Integer| {
        if val <= 1 { return; }
        let k = (key.clone(), val.to_string_radix(16));
        if let Some(prev) = hist.combos.get(&k) { if prev != origin { cx.violation("C17", format!("{frame}/{key}/repeats-across-proofs"), format!("{key} has the same value in {prev} and in {origin}: it does not depend on the fresh randomness of the proof, so it is a function of the hidden values a guess can be checked against")); } }
        else { hist.combos.insert(k, origin.to_string()); }
    };
    for (i, (pa, xa)) in ls.iter().enumerate() {
        see(cx, generic_path(pa), xa.clone());
        for (pb, xb) in ls.iter().skip(i + 1) {
            if component(pa) != component(pb) { continue; }
            cx.count("n.pair_combinations");
            see(cx, format!("{}*{}", generic_path(pa), generic_path(pb)), Integer::from(xa * xb) % n);
            if let Ok(inv) = xb.clone().invert(n) { see(cx, format!("{}/{}", generic_path(pa), generic_path(pb)), Integer::from(xa * &inv) % n); }
        }
    }
}

/// C19 within one frame: two responses of DIFFERENT sub-proofs that share their blinding term:
/// (s - s') / (c - c') is then a secret exactly, whatever the size of the blinder
pub fn check_shared_first_moves(cx: &mut Cx, frame: &str, v: &Value, secrets: &[Secret], extra_challenges: &[(String, Integer)]) {
    let ls = leaves(v);
    let mut chals: Vec<(String, Integer)> = ls.iter().filter(|(p, _)| p.rsplit('.').next() == Some("challenge")).map(|(p, x)| (generic_path(p), x.clone())).collect();
    chals.extend(extra_challenges.iter().cloned());
    let resp: Vec<(&String, &Integer)> = ls.iter().filter(|(p, x)| { let l = p.rsplit('.').next().unwrap_or(""); *x > 0 && !is_group_element(p) && l != "challenge" && l != "C" && l != "randomness" }).map(|(p, x)| (p, x)).collect();
    let big: Vec<&Secret> = secrets.iter().filter(|s| s.value.significant_bits() > 64).collect();
    for (i, (pa, sa)) in resp.iter().enumerate() {
        for (pb, sb) in resp.iter().skip(i + 1) {
            if component(pa) == component(pb) { continue; }
            let ds = Integer::from(*sa - *sb);
            if ds == 0 { continue; }
            for (k, (ca_p, ca)) in chals.iter().enumerate() {
                for (cb_p, cb) in chals.iter().skip(k + 1) {
                    let dc = Integer::from(ca - cb);
                    if dc == 0 || !ds.is_divisible(&dc) { continue; }
                    cx.count("n.exact_difference_quotients");
                    let q = Integer::from(&ds / &dc).abs();
                    for x in &big { if q == x.value { cx.violation("C19", format!("{frame}/{}-{}/extracts/{}", generic_path(pa), generic_path(pb), x.kind), format!("({pa} - {pb}) / ({ca_p} - {cb_p}) is the sender's {} exactly: the two sub-proofs share a blinding term", x.kind)); } }
                }
            }
        }
    }
}

/// C17 across frames, one step further: a response divided by its challenge approximates (to a few
/// units) whatever it masks when the mask is shorter than the challenge.  If that quantity is the
/// randomness r of a group element G = g^y h^r of the same sub-proof, then G * h^(-floor(s/c) + k)
/// = g^y for a small k: the blinding can be stripped by the recipient, and what is left is a
/// function of the hidden value alone -- it repeats in every proof about the same secrets.
pub fn check_strippable(cx: &mut Cx, frame: &str, origin: &str, v: &Value, n: &Integer, hs: &[Integer], extra_challenges: &[(String, Integer)], hist: &mut History) {
    let ls = leaves(v);
    let parent = |p: &str| p.rfind('.').map(|i| p[..i].to_string()).unwrap_or_default();
    let strip_idx = |p: &str| generic_path(p).replace("recomputed:", "").replace("CL03.", "");
    for (gp, g) in ls.iter().filter(|(p, x)| is_group_element(p) && *x > 1) {
        let (p1, p2) = (parent(gp), parent(&parent(gp)));
        let in_scope = |q: &str| (!p1.is_empty() && q.starts_with(&format!("{p1}."))) || (p2.matches('.').count() >= 1 && q.starts_with(&format!("{p2}.")));
        let resp: Vec<&(String, Integer)> = ls.iter().filter(|(q, x)| in_scope(q) && !is_group_element(q) && *x > 0 && { let l = q.rsplit('.').next().unwrap_or(""); l != "challenge" && l != "C" && l != "randomness" }).collect();
        let mut chals: Vec<Integer> = ls.iter().filter(|(q, x)| in_scope(q) && *x > 1 && { let l = q.rsplit('.').next().unwrap_or(""); l == "challenge" }).map(|(_, x)| x.clone()).collect();
        chals.extend(extra_challenges.iter().filter(|(lab, _)| strip_idx(gp).starts_with(&strip_idx(lab))).map(|(_, c)| c.clone()));
        for (sp, s) in &resp {
            for c in &chals {
                let q = Integer::from(s / c);
                for k in 0..3u32 {
                    let r = Integer::from(&q - k);
                    if r <= 0 { continue; }
                    for h in hs {
                        cx.count("n.strip_attempts");
                        let Ok(hinv) = pow(h, &r, n).invert(n) else { continue };
                        let x = Integer::from(g * &hinv) % n;
                        let key = (format!("{}*h^-floor({}/c)", generic_path(gp), generic_path(sp)), x.to_string_radix(16));
                        match hist.combos.get(&key) {
                            Some(prev) if prev != origin => cx.violation("C17", format!("{frame}/{}/blinding-strippable-by/{}", generic_path(gp), generic_path(sp)), format!("{gp} * h^(-floor({sp} / challenge) + {k}) has the same value in {prev} and in {origin}: the response gives away the randomness of the group element, and what remains depends on the hidden value only")),
                            Some(_) => {}
                            None => { hist.combos.insert(key, origin.to_string()); }
                        }
                    }
                }
            }
        }
    }
}

/// challenges of the hash-only sigma protocols (NISPSecrets / NISPMultiSecrets), recomputed
/// from the frame and public data exactly as the verifier does
fn nisp_secrets_challenge(g: &Integer, h: &Integer, cvalue: &Integer, t: &Integer) -> Integer {
    sha256_int(&(g.to_string() + &h.to_string() + &cvalue.to_string() + &t.to_string()))
}

#[derive(Clone, Copy, PartialEq, Eq)]
pub enum Which { Openings, Masking }

/// one fault-free issuance session and one fault-free presentation session, observed
pub fn run(cx: &mut Cx, which: Which) {
    let holder = cx.node("holder");
    let issuer = cx.node("issuer");
    let key = pool_key(cx.ch.forced("pool_key", POOL_SIZE, cx.run_index));
    let (n, hidden) = crate::scen_blind::combo(cx.ch.forced("combo", 57, cx.run_index.wrapping_mul(23)));
    let seed = cx.run_seed;
    // the hidden positions are a set: also listed descending / rotated / shuffled
    let (order_h, hidden) = reorder(&mut cx.ch, "hidden_list_order", &hidden);
    if order_h != "as-given" { cx.count("probe.hidden_positions_listed_in_non_ascending_order"); }
    // trusted party: none / the pool's key (library-generated) / a key over a modulus of another size
    let tp: Option<zkryptium::cl03::keys::CL03CommitmentPublicKey> = match cx.ch.weighted("trusted_party", &[4, 2, 1]) {
        0 => None,
        1 => Some(key.tp_cpk.clone()),
        _ => { let bits = [200u32, 300, 520, 1500][cx.ch.choose("tp_modulus_bits", 4) as usize]; cx.count("probe.trusted_party_modulus_of_another_size"); Some(odd_size_tp_key(seed, bits, MAX_ATTR)) }
    };
    let trusted = tp.is_some();
    // mostly full 256-bit attributes; some short ones (0, 42, a timestamp): the response / challenge
    // clause is meaningful for them too, the response / response clause is applied to long secrets
    // only (DESIGN.md Appendix A.18)
    let msgs: Vec<Integer> = (0..n).map(|i| match cx.ch.weighted("attr_size", &[5, 1, 1, 1]) { 0 => gen_attr(seed, i as u64, 0).value, 1 => Integer::from(0), 2 => Integer::from(42), _ => Integer::from(1_790_000_000u64 + i as u64) }).collect();
    let decoy = gen_attr(seed, 9999, 0).value;
    cx.log(format!("session: key#{} n={n} hidden={hidden:?} ({order_h}) trusted-party modulus={:?} bits", key.idx, tp.as_ref().map(|t| t.N.significant_bits())));
    cx.cell(format!("shape|n{n}|U{}|trusted{}|{order_h}", hidden.len(), tp.as_ref().map(|t| t.N.significant_bits()).unwrap_or(0)));
    let (k1, m1, h1, tp1) = (key.clone(), msgs.clone(), hidden.clone(), tp.clone());
    let (key2, msgs2, hidden2, decoy2) = (key.clone(), msgs.clone(), hidden.clone(), decoy.clone());
    cx.step(holder, "commit+prove", StepOpts::default(), move || holder_commit_and_prove_with(&k1, &m1, &h1, tp1.as_ref()), move |cx, st| {
        let Ok(hc) = st.out else { cx.log("issuance proof failed (C14's business)".into()); return; };
        let v = parse(&hc.zk_json);
        cx.eval(&[b"zkpok", hc.zk_json.as_bytes()], true);
        let mut secrets: Vec<Secret> = hidden2.iter().map(|&i| Secret { kind: "hidden-attribute".into(), value: msgs2[i].clone() }).collect();
        secrets.push(Secret { kind: "commitment-randomness-r".into(), value: hc.c_randomness.clone() });
        if let Some(r) = &hc.ct_randomness { secrets.push(Secret { kind: "trusted-commitment-randomness".into(), value: r.clone() }); }
        // the randomness of every commitment embedded by the prover is a secret opening too
        for (p, _val, rnd) in commitment_objects(&v) { secrets.push(Secret { kind: format!("opening-randomness-of:{}", generic_path(&p)), value: rnd }); }
        let pairs = base_pairs(&key2, n, tp.as_ref());
        // recomputed challenges of the per-attribute and r proofs
        let mut extra = Vec::new();
        {
            {
                if let Some(arr) = v["CL03"]["proofs_commited_mi"].as_array() {
                    for (k, pv) in arr.iter().enumerate() {
                        let i = hidden2[k];
                        if let (Some(t), Some(cv)) = (int_of(&pv["value"]["t"]), int_of(&pv["commitment"]["value"])) { extra.push(("recomputed:proofs_commited_mi[*]".to_string(), nisp_secrets_challenge(&key2.bases.0[i], &key2.pk.b, &cv, &t))); }
                    }
                }
                if let (Some(t), Some(cv)) = (int_of(&v["CL03"]["proof_r"]["value"]["t"]), int_of(&v["CL03"]["proof_r"]["commitment"]["value"])) { extra.push(("recomputed:proof_r".to_string(), nisp_secrets_challenge(&key2.bases.0[0], &key2.pk.b, &cv, &t))); }
                if let Some(t) = int_of(&v["CL03"]["proof_commited_msgs"]["t"]) {
                    let mut s = String::new();
                    for &i in &hidden2 { s += &key2.bases.0[i].to_string(); }
                    s = s + &key2.pk.b.to_string() + &hc.c_value.to_string() + &t.to_string();
                    extra.push(("recomputed:proof_commited_msgs".to_string(), sha256_int(&s)));
                }
            }
        }
        match which {
            Which::Openings => {
                let s: Vec<Secret> = secrets.into_iter().filter(|s| !s.kind.starts_with("opening-randomness-of:")).collect();
                check_openings(cx, "ZKPoK", &v, &s, &pairs, &decoy2, &extra);
            }
            Which::Masking => { check_masking(cx, "ZKPoK", &v, &secrets, &extra); check_shared_first_moves(cx, "ZKPoK", &v, &secrets, &extra); }
        }
    });
    // presentation
    let (k3, m3) = (key.clone(), msgs.clone());
    let (key4, msgs4) = (key.clone(), msgs.clone());
    let hidden_p: Vec<usize> = if cx.ch.chance("present_all_hidden", 1, 4) { reorder(&mut cx.ch, "hidden_list_order", &(0..n).collect::<Vec<_>>()).1 } else { hidden.clone() };
    let hist: std::rc::Rc<std::cell::RefCell<History>> = Default::default();
    // two more presentations of the same credential, each by a holder thread that has done nothing
    // else before (a wallet restored on two devices): observed with the same history
    let fresh = [cx.node("presenter-a"), cx.node("presenter-b")];
    cx.step(issuer, "sign", StepOpts::default(), move || issue_plain(&k3, &m3), move |cx, st| {
        let Ok(sig) = st.out else { return };
        for (who, node) in [("holder", holder), ("presenter-a", fresh[0]), ("presenter-b", fresh[1])] {
            let (k5, m5, h5, sig5) = (key4.clone(), msgs4.clone(), hidden_p.clone(), sig.clone());
            let (key4, msgs4, hidden_p, sig, decoy, hist) = (key4.clone(), msgs4.clone(), hidden_p.clone(), sig.clone(), decoy.clone(), hist.clone());
            cx.step(node, "proof_gen", StepOpts::default(), move || holder_present(&k5, &sig5, &m5, &h5), move |cx, st| {
                let Ok(pj) = st.out else { cx.log("proof_gen failed (C15's business)".into()); return; };
                let v = parse(&pj);
                cx.eval(&[b"pok", who.as_bytes(), pj.as_bytes()], true);
                cx.count("n.presentations_observed");
                let mut secrets: Vec<Secret> = hidden_p.iter().map(|&i| Secret { kind: "hidden-attribute".into(), value: msgs4[i].clone() }).collect();
                secrets.push(Secret { kind: "signature-e".into(), value: sig.0.clone() });
                secrets.push(Secret { kind: "signature-v".into(), value: sig.2.clone() });
                secrets.push(Secret { kind: "signature-s".into(), value: sig.1.clone() });
                let w = int_of(&v["CL03"]["spok"]["Cv"]["randomness"]);
                for (p, _val, rnd) in commitment_objects(&v) { secrets.push(Secret { kind: format!("opening-randomness-of:{}", generic_path(&p)), value: rnd }); }
                let pairs = base_pairs(&key4, n, None);
                let mut extra = Vec::new();
                if let Some(arr) = v["CL03"]["proofs_commited_mi"].as_array() {
                    for (k, pv) in arr.iter().enumerate() {
                        let Some(&i) = hidden_p.get(k) else { break };
                        if let (Some(t), Some(cv)) = (int_of(&pv["value"]["t"]), int_of(&pv["commitment"]["value"])) { extra.push(("recomputed:proofs_commited_mi[*]".to_string(), nisp_secrets_challenge(&key4.cpk.g_bases[i], &key4.cpk.h, &cv, &t))); }
                    }
                }
                match which {
                    Which::Openings => {
                        let mut s: Vec<Secret> = secrets.into_iter().filter(|s| !s.kind.starts_with("opening-randomness-of:")).collect();
                        if let Some(w) = w { s.push(Secret { kind: "blinding-w-of-v".into(), value: w }); }
                        check_openings(cx, "PoKSignature", &v, &s, &pairs, &decoy, &extra);
                        check_combinations(cx, "PoKSignature", who, &v, &key4.pk.N, &mut hist.borrow_mut());
                        check_strippable(cx, "PoKSignature", who, &v, &key4.pk.N, &[key4.cpk.h.clone()], &extra, &mut hist.borrow_mut());
                    }
                    Which::Masking => {
                        check_masking_h(cx, "PoKSignature", who, &v, &secrets, &extra, &mut hist.borrow_mut());
                        check_shared_first_moves(cx, "PoKSignature", &v, &secrets, &extra);
                    }
                }
            });
        }
    });
    // 1 run in 4 (C19): a presentation whose hidden-position list names one position TWICE (a list
    // is a set; a caller that merges two lists produces this).  The two responses for that position
    // may well be equal -- nothing else of the monitor is applied to this frame -- but each must
    // still carry a blinding term: s_5[k] - c * m_i is never zero
    if which == Which::Masking && !hidden.is_empty() && cx.run_index % 4 == 2 {
        let mut hidden_d = hidden.clone();
        let dup = hidden_d[cx.ch.choose("dup_which", hidden_d.len() as u64) as usize];
        let at = cx.ch.choose("dup_at", hidden_d.len() as u64 + 1) as usize;
        hidden_d.insert(at, dup);
        cx.count("probe.hidden_position_listed_twice");
        let (kd, md, hd) = (key.clone(), msgs.clone(), hidden_d.clone());
        let msgs_d = msgs.clone();
        let dupper = cx.node("presenter-dup");
        cx.step(issuer, "sign-for-dup", StepOpts::default(), move || { let sig = issue_plain(&kd, &md); holder_present(&kd, &sig, &md, &hd) }, move |cx, st| {
            let Ok(pj) = st.out else { cx.log("proof_gen with a repeated hidden position failed (C15's business)".into()); return; };
            let v = parse(&pj);
            cx.eval(&[b"pok-dup", pj.as_bytes()], true);
            let (Some(c), Some(arr)) = (int_of(&v["CL03"]["spok"]["challenge"]), v["CL03"]["spok"]["s_5"].as_array()) else { return };
            for (k, sv) in arr.iter().enumerate() {
                let (Some(s5), Some(&i)) = (int_of(sv), hidden_d.get(k)) else { continue };
                if msgs_d[i].significant_bits() <= 64 { continue; }
                cx.count("n.division_tests");
                if Integer::from(&s5 - Integer::from(&c * &msgs_d[i])) == 0 { cx.violation("C19", "PoKSignature/CL03.spok.s_5[*]/blinder-is-zero/CL03.spok.challenge/hidden-attribute".into(), format!("hidden list {hidden_d:?}: s_5[{k}] = challenge * m_{i} exactly: the response for a position listed twice has no blinding term")); }
            }
        });
        let _ = dupper;
    }
    // 1 run in 3: a BURST of presentations -- four holder threads leave a barrier into proof_gen at
    // the same instant, three rounds each (the real-time overlap a pure baton cannot produce; see
    // DESIGN.md 10.2 on bursts).  All twelve frames go through the same history: no group element,
    // pair combination or blinding term may be shared between them.
    if which == Which::Masking || which == Which::Openings {
        if cx.ch.chance("presentation_burst", 1, 3) {
            let nodes: Vec<zksim_core::sim::NodeId> = (0..4).map(|i| cx.node(&format!("burst-presenter{i}"))).collect();
            let (kb, mb, hb) = (key.clone(), msgs.clone(), hidden.clone());
            let (key, msgs) = (key.clone(), msgs.clone());
            let hist_b: std::rc::Rc<std::cell::RefCell<History>> = Default::default();
            cx.count("probe.presentation_burst");
            let decoy_b = gen_attr(seed, 9997, 0).value;
            cx.step(issuer, "sign-for-burst", StepOpts::default(), move || issue_plain(&kb, &mb), move |cx, st| {
                let Ok(sig) = st.out else { return };
                let barrier = Arc::new(std::sync::Barrier::new(nodes.len()));
                let steps: Vec<(zksim_core::sim::NodeId, Box<dyn FnOnce() -> Vec<String> + Send>)> = nodes.iter().map(|&nd| {
                    let (k, m, h, sg, b) = (key.clone(), msgs.clone(), hb.clone(), sig.clone(), barrier.clone());
                    let f: Box<dyn FnOnce() -> Vec<String> + Send> = Box::new(move || (0..3).map(|_| { b.wait(); holder_present(&k, &sg, &m, &h) }).collect());
                    (nd, f)
                }).collect();
                let (key_c, msgs_c, hidden_c, hist_c) = (key.clone(), msgs.clone(), hb.clone(), hist_b.clone());
                cx.burst(steps, "proof_gen x3 from a barrier", move |cx, outs| {
                    for (ni, st) in outs.into_iter().enumerate() {
                        let Ok(frames) = st.out else { cx.log("burst proof_gen failed (C15's business)".into()); continue; };
                        for (r, pj) in frames.into_iter().enumerate() {
                            let who = format!("burst-presenter{ni}/round{r}");
                            let v = parse(&pj);
                            cx.eval(&[b"burst-pok", who.as_bytes(), pj.as_bytes()], true);
                            cx.count("fault.concurrent_calls");
                            let mut secrets: Vec<Secret> = hidden_c.iter().map(|&i| Secret { kind: "hidden-attribute".into(), value: msgs_c[i].clone() }).collect();
                            secrets.push(Secret { kind: "signature-e".into(), value: sig.0.clone() });
                            secrets.push(Secret { kind: "signature-v".into(), value: sig.2.clone() });
                            secrets.push(Secret { kind: "signature-s".into(), value: sig.1.clone() });
                            match which {
                                Which::Openings => check_combinations(cx, "PoKSignature", &who, &v, &key_c.pk.N, &mut hist_c.borrow_mut()),
                                Which::Masking => {
                                    // published randomness values are blinding terms too: a mask of one frame must not be the opening of another
                                    let mut hh = hist_c.borrow_mut();
                                    for (p, _val, rnd) in commitment_objects(&v) { if rnd > 0 { let here = format!("{who}:{}", generic_path(&p)); if let Some(prev) = hh.blinders.get(&rnd.to_string_radix(16)) { if *prev != here { cx.violation("C19", format!("PoKSignature/{}.randomness/blinder-reused", generic_path(&p)), format!("the randomness published in {here} is the blinding term of {prev}")); } } else { hh.blinders.insert(rnd.to_string_radix(16), here); } } }
                                    check_masking_h(cx, "PoKSignature", &who, &v, &secrets, &[], &mut hh);
                                }
                            }
                        }
                    }
                    let _ = &decoy_b;
                });
            });
        }
    }
    // every eighth run: a wide credential (more than 64 attributes) with hidden attributes beyond
    // position 63, presented and observed the same way
    if cx.run_index % 8 == 3 {
        let n = 65 + cx.ch.choose("wide_n", (WIDE - 65) as u64 + 1) as usize;
        let mut hidden_w = vec![cx.ch.choose("wide_hidden_low", 64) as usize, 64 + cx.ch.choose("wide_hidden_high", (n - 64) as u64) as usize];
        if cx.ch.chance("wide_last_hidden", 1, 2) && !hidden_w.contains(&(n - 1)) { hidden_w.push(n - 1); }
        // every second wide credential hides MANY attributes (18..=24: more than a batch of 16)
        if cx.run_index % 16 == 3 { let many = 18 + cx.ch.choose("wide_many_hidden", 7) as usize; let mut k = 1usize; while hidden_w.len() < many && k < n { if !hidden_w.contains(&k) { hidden_w.push(k); } k += 3; } cx.count("probe.presentation_hiding_more_than_sixteen_attributes"); }
        hidden_w.sort();
        let msgs_w: Vec<Integer> = (0..n).map(|i| gen_attr(seed, 3000 + i as u64, 0).value).collect();
        cx.count("probe.wide_credential_presented");
        let (k6, m6, h6) = (key.clone(), msgs_w.clone(), hidden_w.clone());
        let key7 = key.clone();
        let decoy7 = gen_attr(seed, 9998, 0).value;
        cx.step(holder, "wide-proof_gen", StepOpts::default(), move || { let (sig, pj) = wide_issue_and_present(&k6, &m6, &h6); let rev: Vec<Integer> = (0..m6.len()).filter(|i| !h6.contains(i)).map(|i| m6[i].clone()).collect(); let ok = wide_verify(&k6, &pj, &rev, &h6, m6.len()); (sig, pj, ok) }, move |cx, st| {
            let Ok((sig, pj, ok)) = st.out else { cx.log("wide proof_gen failed (C15's business)".into()); return; };
            if !ok { cx.log("wide proof does not verify (C15's business)".into()); }
            let v = parse(&pj);
            cx.eval(&[b"wide-pok", pj.as_bytes()], true);
            let mut secrets: Vec<Secret> = hidden_w.iter().map(|&i| Secret { kind: "hidden-attribute".into(), value: msgs_w[i].clone() }).collect();
            secrets.push(Secret { kind: "signature-e".into(), value: sig.0.clone() });
            secrets.push(Secret { kind: "signature-v".into(), value: sig.2.clone() });
            secrets.push(Secret { kind: "signature-s".into(), value: sig.1.clone() });
            match which {
                Which::Openings => {
                    // base pairs of the wide key: only the hidden positions matter
                    let pairs: Vec<BasePair> = hidden_w.iter().map(|&i| BasePair { name: "(g_i,h)".into(), g: key7.cpk_wide.g_bases[i].clone(), h: key7.cpk_wide.h.clone(), n: key7.cpk_wide.N.clone() }).chain(std::iter::once(BasePair { name: "(g_i,h)".into(), g: key7.cpk_wide.g_bases[0].clone(), h: key7.cpk_wide.h.clone(), n: key7.cpk_wide.N.clone() })).collect();
                    if let Some(w) = int_of(&v["CL03"]["spok"]["Cv"]["randomness"]) { secrets.push(Secret { kind: "blinding-w-of-v".into(), value: w }); }
                    check_openings(cx, "PoKSignature", &v, &secrets, &pairs, &decoy7, &[]);
                }
                Which::Masking => {
                    for (p, _val, rnd) in commitment_objects(&v) { secrets.push(Secret { kind: format!("opening-randomness-of:{}", generic_path(&p)), value: rnd }); }
                    let mut extra = Vec::new();
                    if let Some(arr) = v["CL03"]["proofs_commited_mi"].as_array() {
                        for (k, pv) in arr.iter().enumerate() {
                            let i = hidden_w[k];
                            if let (Some(t), Some(cv)) = (int_of(&pv["value"]["t"]), int_of(&pv["commitment"]["value"])) { extra.push(("recomputed:proofs_commited_mi[*]".to_string(), nisp_secrets_challenge(&key7.cpk_wide.g_bases[i], &key7.cpk_wide.h, &cv, &t))); }
                        }
                    }
                    check_masking(cx, "PoKSignature", &v, &secrets, &extra);
                }
            }
        });
    }
    cx.run();
    let _: Option<Arc<KeyMat>> = None;
}

pub fn run_c17(cx: &mut Cx) { run(cx, Which::Openings) }
pub fn run_c19(cx: &mut Cx) { run(cx, Which::Masking) }

/// do a response path and a challenge path belong to the same sub-proof (same first component)?
fn same_subproof(rp: &str, cp: &str) -> bool {
    fn head(p: &str) -> &str {
        let p = p.strip_prefix("recomputed:").unwrap_or(p);
        let p = p.strip_prefix("CL03.").unwrap_or(p);
        let end = p.find(|c| c == '.' || c == '[').unwrap_or(p.len());
        &p[..end]
    }
    head(rp) == head(cp)
}
