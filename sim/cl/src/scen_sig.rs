//! C13: CL03 signatures -- issued ones verify (single / multi attribute, after selective
//! disclosure, across byte and JSON encodings and a holder restart), the issued exponent is
//! well formed, and nothing else verifies (channel corruption and Mallory's shift-by-e).
use crate::kit::*;
use rug::Integer;
use std::sync::Arc;
use zkryptium::cl03::bases::Bases;
use zkryptium::cl03::keys::CL03PublicKey;
use zkryptium::schemes::generics::Signature;
use zkryptium::utils::message::cl03_message::CL03Message;
use zksim_core::sim::{Crash, Cx, NodeId, StepOpts};

#[derive(Clone)]
pub struct Cred {
    pub pk: CL03PublicKey,
    pub bases: Vec<Integer>,
    pub msgs: Vec<Integer>,
    pub e: Integer,
    pub s: Integer,
    pub v: Integer,
}

pub fn sig_from_parts(e: &Integer, s: &Integer, v: &Integer) -> Option<Signature<Sch>> {
    serde_json::from_value(serde_json::json!({"CL03": {"e": int_json(e), "s": int_json(s), "v": int_json(v)}})).ok()
}
pub fn sig_parts(sig: &Signature<Sch>) -> (Integer, Integer, Integer) {
    let j = serde_json::to_value(sig).unwrap();
    (int_of(&j["CL03"]["e"]).unwrap(), int_of(&j["CL03"]["s"]).unwrap(), int_of(&j["CL03"]["v"]).unwrap())
}

fn verify_cred(c: &Cred, single: bool) -> bool {
    let Some(sig) = sig_from_parts(&c.e, &c.s, &c.v) else { return false };
    let bases = Bases(c.bases.clone());
    let msgs: Vec<CL03Message> = c.msgs.iter().map(|m| CL03Message::new(m.clone())).collect();
    if single && msgs.len() == 1 { sig.verify(&c.pk, &bases, &msgs[0]) } else { sig.verify_multiattr(&c.pk, &bases, &msgs) }
}

#[derive(Clone, Copy, PartialEq, Eq, Debug)]
enum Verdict { MustAccept, MustReject, DontCare }

/// content-based verdict against the one issued statement of the run
fn judge(issued: &Cred, d: &Cred) -> Verdict {
    if d.pk != issued.pk || d.e != issued.e || d.s != issued.s || d.v != issued.v { return Verdict::MustReject; }
    // trailing zero attributes (a_i^0 = 1) do not change the statement
    let strip = |m: &[Integer]| { let mut v = m.to_vec(); while v.last().map(|x| *x == 0).unwrap_or(false) { v.pop(); } v };
    let (a, b) = (strip(&issued.msgs), strip(&d.msgs));
    if a != b { return Verdict::MustReject; }
    // a base only matters where the attribute is non-zero (a_i^0 = 1)
    for i in 0..b.len() {
        if b[i] != 0 && (i >= d.bases.len() || d.bases[i] != issued.bases[i]) { return Verdict::MustReject; }
    }
    if d.bases.len() < d.msgs.len() { return Verdict::DontCare; } // refused by panic ("Not enought a_bases") or not: same statement
    if d.msgs == issued.msgs && d.bases == issued.bases { Verdict::MustAccept } else { Verdict::DontCare }
}

fn deliver(cx: &mut Cx, holder: NodeId, issued: Arc<Cred>, d: Cred, fault: String, single: bool) {
    let Some(item) = cx.item() else { return };
    cx.log(format!("item {item}: credential {fault}"));
    let d2 = d.clone();
    cx.step(holder, "verify", StepOpts::default(), move || verify_cred(&d2, single), move |cx, st| {
        cx.cur_item = Some(item);
        let verdict = judge(&issued, &d);
        let (accepted, how) = match &st.out { Ok(true) => (true, "accept"), Ok(false) => (false, "reject"), Err(Crash::Panic(_)) => (false, "refused-by-panic"), Err(_) => (false, "crash") };
        let bytes: Vec<u8> = d.msgs.iter().chain([&d.e, &d.s, &d.v]).flat_map(|i| i.to_string_radix(16).into_bytes()).collect();
        cx.eval(&[fault.as_bytes(), &bytes, &(d.bases.len() as u64).to_le_bytes(), d.pk.N.to_string_radix(16).as_bytes()], true);
        let fk = fault.split(':').next().unwrap_or("").to_string();
        cx.count(&format!("fault.{fk}"));
        cx.count(&format!("verdict.{verdict:?}.{how}"));
        cx.cell(format!("{}|{fk}|{verdict:?}|{how}", if single { "verify" } else { "verify_multiattr" }));
        let entry = if single { "verify" } else { "verify_multiattr" };
        match verdict {
            Verdict::MustAccept if !accepted => cx.violation("C13", format!("{entry}/MustAccept-not-accepted/{fk}"), format!("{fault}: n={} {how}", d.msgs.len())),
            Verdict::MustReject if accepted => cx.violation("C13", format!("{entry}/MustReject-accepted/{fk}"), format!("{fault}: attributes {:?} verify under a signature issued for {:?}", d.msgs.iter().map(|m| m.to_string_radix(16)).collect::<Vec<_>>(), issued.msgs.iter().map(|m| m.to_string_radix(16)).collect::<Vec<_>>())),
            _ => {}
        }
        cx.cur_item = None;
    });
}

pub fn run_c13(cx: &mut Cx) {
    let issuer = cx.node("issuer");
    let holder = cx.node("holder");
    let key = pool_key(cx.ch.forced("pool_key", POOL_SIZE, cx.run_index));
    let n = 1 + cx.ch.forced("n_attr", 5, cx.run_index / POOL_SIZE) as usize;
    let seed = cx.run_seed;
    let msgs: Vec<CL03Message> = (0..n).map(|i| { let kind = cx.ch.weighted("attr_kind", &[8, 1, 1, 1]) as u64; gen_attr(seed, i as u64, kind) }).collect();
    let single = n == 1 && cx.ch.chance("single_attr_api", 1, 2);
    // "every base set": mostly the generated one (squares); also base sets a relying party could
    // publish itself -- small primes, or units drawn without squaring (non-residues among them)
    let base_kind = cx.ch.weighted("base_set", &[4, 1, 1]);
    let bases_used: Vec<Integer> = match base_kind {
        0 => key.bases.0.clone(),
        1 => [2u32, 3, 5, 7, 11].iter().map(|&p| Integer::from(p)).collect(),
        _ => (0..MAX_ATTR).map(|i| { let mut x = Integer::from_digits(&zksim_core::prng::bytes_for(seed, b"unit-base", i as u64, (LN / 8) as usize), rug::integer::Order::MsfBe) % &key.pk.N; while Integer::from(x.gcd_ref(&key.pk.N)) != 1 || x <= 1 { x += 1; } x }).collect(),
    };
    if base_kind != 0 { cx.count("probe.base_set_not_generated_by_the_library"); }
    let key = if base_kind == 0 { key } else { Arc::new(KeyMat { idx: key.idx, pk: key.pk.clone(), sk: key.sk.clone(), bases: Bases(bases_used.clone()), cpk: key.cpk.clone(), bases2: key.bases2.clone(), cpk2: key.cpk2.clone(), tp_cpk: key.tp_cpk.clone(), bases_wide: key.bases_wide.clone(), cpk_wide: key.cpk_wide.clone() }) };
    cx.log(format!("session: key#{} n={n} single={single} base set kind {base_kind}", key.idx));
    cx.cell(format!("shape|n{n}|single{}", single as u8));
    let (k1, m1) = (key.clone(), msgs.clone());
    let opts = StepOpts { eintr: if cx.ch.chance("eintr", 1, 6) { 1 } else { 0 }, short_reads: if cx.ch.chance("short", 1, 6) { 1 } else { 0 }, ..Default::default() };
    cx.step(issuer, "sign", opts, move || {
        let sig = if single { Signature::<Sch>::sign(&k1.pk, &k1.sk, &k1.bases, &m1[0]) } else { Signature::<Sch>::sign_multiattr(&k1.pk, &k1.sk, &Bases(k1.bases.0[..m1.len()].to_vec()), &m1) };
        (serde_json::to_string(&sig).unwrap(), sig.to_bytes())
    }, move |cx, st| {
        let (json, bytes) = match st.out { Ok(x) => x, Err(c) => { cx.violation("C13", "sign/failed".into(), format!("n={n}: {c:?}")); return; } };
        let sig: Signature<Sch> = serde_json::from_str(&json).expect("own JSON");
        let (e, s, v) = sig_parts(&sig);
        cx.eval(&[b"sign", json.as_bytes()], true);
        // invariant on every issued signature (the monitor knows p and q)
        let phi = Integer::from(&key.sk.p - 1u32) * Integer::from(&key.sk.q - 1u32);
        let lo = Integer::from(1) << (LE - 1);
        let hi = Integer::from(1) << LE;
        if e.is_probably_prime(40) == rug::integer::IsPrime::No { cx.violation("C13", "issued-e/not-prime".into(), format!("e={}", e.to_string_radix(16))); }
        if !(e > lo && e < hi) { cx.violation("C13", "issued-e/bit-length".into(), format!("e has {} bits, expected exactly {LE}", e.significant_bits())); }
        if Integer::from(e.gcd_ref(&phi)) != 1 { cx.violation("C13", "issued-e/not-coprime-to-group-order".into(), format!("e={}", e.to_string_radix(16))); }
        if s.significant_bits() != LN + LM + 256 { cx.violation("C13", "issued-s/bit-length".into(), format!("s has {} bits, expected {}", s.significant_bits(), LN + LM + 256)); }
        let issued = Arc::new(Cred { pk: key.pk.clone(), bases: key.bases.0[..n].to_vec(), msgs: msgs.iter().map(|m| m.value.clone()).collect(), e: e.clone(), s: s.clone(), v: v.clone() });
        // --- completeness leg: the credential travels as JSON or as octets; holder may restart
        if cx.ch.chance("restart_holder", 1, 3) { cx.restart(holder); }
        let via_bytes = cx.ch.chance("via_bytes", 1, 2);
        let (j2, b2, iss2) = (json.clone(), bytes.clone(), issued.clone());
        cx.step(holder, "decode", StepOpts::default(), move || {
            let sig = if via_bytes { Signature::<Sch>::from_bytes(&b2) } else { serde_json::from_str::<Signature<Sch>>(&j2).map_err(|e| e.to_string())? };
            let (e, s, v) = sig_parts(&sig);
            Ok::<_, String>((e, s, v, sig.to_bytes() == b2))
        }, move |cx, st| {
            cx.eval(&[b"decode", &[via_bytes as u8], json.as_bytes()], true);
            cx.count(if via_bytes { "fault.codec_bytes" } else { "fault.codec_json" });
            match st.out {
                Ok(Ok((e, s, v, same))) => {
                    if (&e, &s, &v) != (&iss2.e, &iss2.s, &iss2.v) || !same { cx.violation("C13", format!("codec/{}/roundtrip", if via_bytes { "bytes" } else { "json" }), "decoded signature differs from the issued one".into()); }
                }
                other => cx.violation("C13", format!("codec/{}/decode-failed", if via_bytes { "bytes" } else { "json" }), format!("{other:?}")),
            }
        });
        deliver(cx, holder, issued.clone(), (*issued).clone(), "none".into(), single);
        // the single-attribute API is given the issuer's whole base set (it uses the first base):
        // verification with the very base set the signature was made with
        if single {
            let (k9, iss9) = (key.clone(), issued.clone());
            cx.step(holder, "verify-single-with-the-whole-base-set", StepOpts::default(), move || {
                let sig = sig_from_parts(&iss9.e, &iss9.s, &iss9.v).ok_or("construct")?;
                Ok::<_, String>(sig.verify(&k9.pk, &k9.bases, &CL03Message::new(iss9.msgs[0].clone())))
            }, move |cx, st| {
                cx.eval(&[b"single-whole-base-set", &[0]], true);
                match st.out { Ok(Ok(true)) => cx.count("verdict.MustAccept.accept"), other => cx.violation("C13", "verify/MustAccept-not-accepted/whole-base-set".into(), format!("sign(pk, sk, bases, m) then verify(pk, bases, m) with the same {}-element base set: {other:?}", MAX_ATTR)) }
            });
        }
        // a valid signature on the same statement whose v has a leading zero octet (to_bytes writes v
        // at its natural length): it must survive its byte encoding and verify like any other
        if let Some((e2, s2, v2, k)) = short_v_variant(&issued.pk, &issued.e, &issued.s, &issued.v) {
            cx.count("probe.short_v_signature_constructed");
            let (iss3, e3, s3, v3) = (issued.clone(), e2.clone(), s2.clone(), v2.clone());
            cx.step(holder, "short-v-bytes-roundtrip", StepOpts::default(), move || {
                let sig = sig_from_parts(&e3, &s3, &v3).ok_or("construct")?;
                let bytes = sig.to_bytes();
                let back = Signature::<Sch>::from_bytes(&bytes);
                let c = Cred { pk: iss3.pk.clone(), bases: iss3.bases.clone(), msgs: iss3.msgs.clone(), e: e3.clone(), s: s3.clone(), v: v3.clone() };
                Ok::<_, String>((sig_parts(&back) == (e3.clone(), s3.clone(), v3.clone()), verify_cred(&c, false)))
            }, move |cx, st| {
                cx.eval(&[b"short-v", v2.to_string_radix(16).as_bytes()], true);
                cx.count("fault.codec_bytes_short_v");
                match st.out {
                    Ok(Ok((true, true))) => cx.count("verdict.MustAccept.accept"),
                    other => cx.violation("C13", "codec/bytes/short-v-roundtrip".into(), format!("signature re-randomised with k={k} (v has {} bits): {other:?}", v2.significant_bits())),
                }
            });
        }
        // selective disclosure for every subset of hidden positions
        let subsets: Vec<u64> = (0..(1u64 << n)).collect();
        for mask in subsets {
            // the list of hidden positions is a set: it is also given descending / rotated / shuffled
            let (order, mut hidden) = reorder(&mut cx.ch, "hidden_list_order", &subset_of(mask, n));
            if order != "as-given" { cx.count("probe.hidden_positions_listed_in_non_ascending_order"); }
            // ... and a position may be listed twice (two merged lists): still the same set
            if !hidden.is_empty() && cx.ch.chance("hidden_list_with_a_repeat", 1, 5) { let k = cx.ch.choose("repeat_which", hidden.len() as u64) as usize; let at = cx.ch.choose("repeat_at", hidden.len() as u64 + 1) as usize; let x = hidden[k]; hidden.insert(at, x); cx.count("probe.hidden_position_listed_twice"); }
            let Some(item) = cx.item() else { continue };
            let (iss, k2, h2) = (issued.clone(), key.clone(), hidden.clone());
            cx.step(holder, "disclose+verify", StepOpts::default(), move || {
                let sig = sig_from_parts(&iss.e, &iss.s, &iss.v).unwrap();
                let msgs: Vec<CL03Message> = iss.msgs.iter().map(|m| CL03Message::new(m.clone())).collect();
                let (sdm, sdb) = sig.disclose_selectively(&msgs, Bases(iss.bases.clone()), &k2.pk, &h2);
                let hidden_ok = h2.iter().all(|&i| sdm[i].value == 1);
                (sig.verify_multiattr(&k2.pk, &sdb, &sdm), hidden_ok)
            }, move |cx, st| {
                cx.cur_item = Some(item);
                cx.eval(&[b"sd", &mask.to_le_bytes(), &iss2_bytes(&issued_dummy())], true);
                cx.count("fault.none");
                match st.out {
                    Ok((true, true)) => cx.count("verdict.MustAccept.accept"),
                    other => cx.violation("C13", "disclose_selectively/MustAccept-not-accepted".into(), format!("hidden={hidden:?} ({order}) of n={n}: {other:?}")),
                }
                cx.cur_item = None;
            });
        }
        corrupt(cx, holder, key.clone(), issued, single);
    });
    cx.run();
}

fn issued_dummy() -> Vec<u8> { Vec::new() }
fn iss2_bytes(v: &[u8]) -> Vec<u8> { v.to_vec() }

fn corrupt(cx: &mut Cx, holder: NodeId, key: Arc<KeyMat>, issued: Arc<Cred>, single: bool) {
    let n = issued.msgs.len();
    let nmod = &issued.pk.N;
    let send = |cx: &mut Cx, d: Cred, f: String| deliver(cx, holder, issued.clone(), d, f, single);
    // one attribute changed
    for i in 0..n {
        for (name, nv) in [("+1", Integer::from(&issued.msgs[i] + 1)), ("-1", Integer::from(&issued.msgs[i] - 1)), ("other", gen_attr(cx.run_seed, 900 + i as u64, 0).value), ("zeroed", Integer::from(0))] {
            let mut d = (*issued).clone(); d.msgs[i] = nv; send(cx, d, format!("attr_alter:{name}@{i}"));
        }
    }
    // positions swapped
    for i in 0..n { for j in i + 1..n { let mut d = (*issued).clone(); d.msgs.swap(i, j); send(cx, d, format!("attr_swap:{i}<->{j}")); } }
    // length edits
    { let mut d = (*issued).clone(); d.msgs.pop(); send(cx, d, "attr_drop_last".into()); }
    if n < MAX_ATTR { let mut d = (*issued).clone(); d.msgs.push(Integer::from(7)); d.bases = key.bases.0[..n + 1].to_vec(); send(cx, d, "attr_added".into()); }
    { let mut d = (*issued).clone(); d.msgs.push(Integer::from(0)); send(cx, d, "attr_added_beyond_bases".into()); }
    { let mut d = (*issued).clone(); d.msgs.push(Integer::from(7)); send(cx, d, "attr_added_beyond_bases:nonzero".into()); }
    { let mut d = (*issued).clone(); d.msgs.push(gen_attr(cx.run_seed, 950, 0).value); d.msgs.push(Integer::from(1)); send(cx, d, "attr_added_beyond_bases:two".into()); }
    // two attributes changed at once, one up by a small multiple and the other down by one: the
    // same signature would verify if the bases were related (a_j a small power of a_i)
    for i in 0..n { for j in 0..n { if i == j || issued.msgs[j] == 0 { continue; } for c in [1u32, 2, 3, 4, 8, 16] {
        let mut d = (*issued).clone(); d.msgs[i] += c; d.msgs[j] -= 1u32;
        if d.msgs[i] >= (Integer::from(1) << LM) { continue; }
        send(cx, d, format!("attr_trade:+{c}@{i},-1@{j}"));
    } } }
    // signature components
    for (fname, which) in [("e", 0), ("s", 1), ("v", 2)] {
        for (pn, f) in [("+1", 1i32), ("-1", -1), ("zero", 0)] {
            let mut d = (*issued).clone();
            let tgt = match which { 0 => &mut d.e, 1 => &mut d.s, _ => &mut d.v };
            if f == 0 { *tgt = Integer::from(0); } else { *tgt += f; }
            send(cx, d, format!("sig_field:{fname}{pn}"));
        }
    }
    { let mut d = (*issued).clone(); std::mem::swap(&mut d.e, &mut d.s); send(cx, d, "sig_field:e<->s".into()); }
    { let mut d = (*issued).clone(); std::mem::swap(&mut d.s, &mut d.v); send(cx, d, "sig_field:s<->v".into()); }
    { let mut d = (*issued).clone(); d.v = Integer::from(nmod - &d.v); send(cx, d, "sig_field:v->N-v".into()); }
    // the same residue, another integer: v + N and v - N (v only enters as the base of v^e)
    { let mut d = (*issued).clone(); d.v += nmod; send(cx, d, "sig_field:v+N".into()); }
    { let mut d = (*issued).clone(); d.v -= nmod; send(cx, d, "sig_field:v-N".into()); }
    { let mut d = (*issued).clone(); d.s += Integer::from(&d.e); send(cx, d, "sig_field:s+e".into()); }
    // computable from the signature and N alone: (-e, s, v^-1 mod N) satisfies the same equation
    // (v^-1)^(-e) = v^e; an exponent test that looks at the bit length only lets the sign through
    if let Ok(vinv) = issued.v.clone().invert(nmod) { let mut d = (*issued).clone(); d.e = Integer::from(-&d.e); d.v = vinv; send(cx, d, "sig_field:(-e,1/v)".into()); }
    // the whole vector rotated by one position (with an attribute equal to 0 in it the product
    // of a verifier that skips zeros before indexing its bases is the same)
    if n > 1 && issued.msgs.iter().any(|m| *m != issued.msgs[0]) { let mut d = (*issued).clone(); d.msgs.rotate_left(1); send(cx, d, "attr_rotate_left".into()); let mut d = (*issued).clone(); d.msgs.rotate_right(1); send(cx, d, "attr_rotate_right".into()); }
    // an insider's edit (needs the factorisation): e plus the order of the group of squares,
    // p'q' = (p-1)(q-1)/4.  v^(e + p'q') = v^e, the same equation with an exponent of ~1022
    // bits instead of le = 258: only the length test on e refuses it, in BOTH entry points
    {
        let ord = Integer::from(&key.sk.p - 1u32) * Integer::from(&key.sk.q - 1u32) / 4u32;
        cx.count("probe.exponent_shifted_by_the_group_order");
        let mut d = (*issued).clone(); d.e += &ord; send(cx, d, "sig_field:e+ord(QR_N)".into());
        let mut d = (*issued).clone(); d.e += Integer::from(&ord * 4u32); send(cx, d, "sig_field:e+phi(N)".into());
    }
    // other bases / other key
    { let mut d = (*issued).clone(); d.bases = key.bases2.0[..n].to_vec(); send(cx, d, "misroute_bases".into()); }
    // (rotating the bases under a constant attribute vector leaves prod a_i^m_i unchanged: same statement)
    { let mut d = (*issued).clone(); d.bases.rotate_left(1); if n > 1 && issued.msgs.iter().any(|m| *m != issued.msgs[0]) { send(cx, d, "bases_rotated".into()); } }
    if let Some(other) = other_pool_key(key.idx) { let mut d = (*issued).clone(); d.pk = other.pk.clone(); send(cx, d, "misroute_key".into()); }
    { let mut d = (*issued).clone(); std::mem::swap(&mut d.pk.b, &mut d.pk.c); send(cx, d, "pk_b<->c".into()); }
    // Mallory: from a valid signature, without the secret key: (v * a_i^k, m_i + k*e)
    for i in 0..n {
        for k in [1i32, -1, 2, -2] {
            let mut d = (*issued).clone();
            let a = &issued.bases[i];
            let ak = if k > 0 { pow(a, &Integer::from(k), nmod) } else { pow(&Integer::from(a.invert_ref(nmod).unwrap()), &Integer::from(-k), nmod) };
            d.v = Integer::from(&d.v * &ak) % nmod;
            d.msgs[i] += Integer::from(&issued.e * k);
            send(cx, d, format!("forged_shift_by_e:k={k}@{i}"));
        }
    }
    // Mallory, from the public key alone: with e = 1 the "signature" v = prod a_i^m_i * b^s * c verifies
    // unless the exponent range is enforced; and an issued signature rewritten as (1, v^e)
    {
        let mut rhs = Integer::from(1);
        for i in 0..n { rhs = rhs * pow(&issued.bases[i], &issued.msgs[i], nmod) % nmod; }
        let s_any = Integer::from(12345);
        rhs = rhs * pow(&issued.pk.b, &s_any, nmod) % nmod * &issued.pk.c % nmod;
        let mut d = (*issued).clone(); d.e = Integer::from(1); d.s = s_any; d.v = rhs;
        send(cx, d, "forged_public_key_only:e=1".into());
        let mut d = (*issued).clone(); d.v = pow(&issued.v, &issued.e, nmod); d.e = Integer::from(1);
        send(cx, d, "forged_rewrite:(1,v^e)".into());
        // e' = 2e with v' a square root is not computable; but (e/1 .. ) small exponents must all be refused
        let mut d = (*issued).clone(); d.e = Integer::from(3); d.v = Integer::from(2);
        send(cx, d, "sig_field:e=3".into());
    }
    // the same through s: (v * b^k, s + k*e) is the SAME statement with another signature: not a forgery
    // of a new attribute vector, but it must not be confused with the issued signature either
    { let mut d = (*issued).clone(); d.v = Integer::from(&d.v * &issued.pk.b) % nmod; d.s += Integer::from(&issued.e); let _ = d; }
}
