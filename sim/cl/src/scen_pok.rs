//! C15: CL03 proof of knowledge of a signature -- complete for every hidden subset, bound to
//! its statement under channel corruption and field-level tampering.
use crate::kit::*;
use crate::sessions::*;
use rug::Integer;
use std::sync::Arc;
use zksim_core::sim::{Cx, NodeId, StepOpts};

/// the 62 (n, hidden subset) combinations for n = 1..5 (all subsets, the empty one included)
pub fn combo(k: u64) -> (usize, Vec<usize>) {
    let mut k = k % 62;
    for n in 1..=5usize {
        let c = 1u64 << n;
        if k < c { return (n, subset_of(k, n)); }
        k -= c;
    }
    unreachable!()
}

pub fn deliver(cx: &mut Cx, verifier: NodeId, p: Presentation, fault: String, must_accept: bool) {
    let Some(item) = cx.item() else { return };
    cx.log(format!("item {item}: presentation {fault}"));
    let p2 = p.clone();
    cx.step(verifier, "proof_verify", StepOpts::default(), move || verifier_handle(&p2), move |cx, st| {
        cx.cur_item = Some(item);
        let ok = matches!(st.out, Ok(true));
        let how = match &st.out { Ok(true) => "accept", Ok(false) => "reject", Err(_) => "refused-by-panic" };
        let rb: Vec<u8> = p.revealed.iter().flat_map(|i| i.to_string_radix(16).into_bytes()).collect();
        cx.eval(&[b"pok", fault.as_bytes(), p.proof_json.as_bytes(), &rb, format!("{:?}{}", p.hidden, p.n).as_bytes()], true);
        let (fc, fk) = fault_class(&fault);
        cx.count(&format!("fault.{fc}"));
        cx.count(&format!("verdict.{}.{how}", if must_accept { "MustAccept" } else { "MustReject" }));
        cx.cell(format!("proof_verify|{fc}|{how}"));
        if must_accept && !ok { cx.violation("C15", format!("proof_verify/MustAccept-not-accepted/{fk}"), format!("{fault}: n={} hidden={:?} -> {how}", p.n, p.hidden)); }
        if !must_accept && ok { cx.violation("C15", format!("proof_verify/MustReject-accepted/{fk}"), format!("{fault}: n={} hidden={:?}", p.n, p.hidden)); }
        cx.cur_item = None;
    });
}

pub fn run_c15(cx: &mut Cx) {
    let issuer = cx.node("issuer");
    let holder = cx.node("holder");
    let verifier = cx.node("verifier");
    let key = pool_key(cx.ch.forced("pool_key", POOL_SIZE, cx.run_index));
    let (n, hidden) = combo(cx.ch.forced("combo", 62, cx.run_index.wrapping_mul(27)));
    let seed = cx.run_seed;
    if cx.run_index % 8 == 5 { return grind(cx, issuer, holder, verifier, key); }
    // the hidden positions are a set: also listed descending / rotated / shuffled
    let (order_h, hidden) = reorder(&mut cx.ch, "hidden_list_order", &hidden);
    if order_h != "as-given" { cx.count("probe.hidden_positions_listed_in_non_ascending_order"); }
    let msgs: Vec<Integer> = (0..n).map(|i| { let kind = cx.ch.weighted("attr_kind", &[8, 1, 1, 1]) as u64; gen_attr(seed, i as u64, kind).value }).collect();
    cx.log(format!("session: key#{} n={n} hidden={hidden:?} ({order_h})", key.idx));
    cx.cell(format!("shape|n{n}|U{}", hidden.len()));
    if hidden.is_empty() { cx.count("probe.nothing_hidden"); }
    if hidden.len() == n { cx.count("probe.all_hidden"); }
    let (k1, m1) = (key.clone(), msgs.clone());
    cx.step(issuer, "sign", StepOpts::default(), move || issue_plain(&k1, &m1), move |cx, st| {
        let Ok(sig) = st.out else { cx.log("issuance failed (C13's business)".into()); return; };
        if cx.ch.chance("restart_holder", 1, 4) { cx.restart(holder); }
        let opts = StepOpts { eintr: if cx.ch.chance("eintr", 1, 6) { 1 } else { 0 }, short_reads: if cx.ch.chance("short", 1, 6) { 1 } else { 0 }, ..Default::default() };
        let (k2, m2, h2) = (key.clone(), msgs.clone(), hidden.clone());
        let sig_copy = sig.clone();
        cx.step(holder, "proof_gen", opts, move || holder_present(&k2, &sig, &m2, &h2), move |cx, st| {
            let proof_json = match st.out { Ok(j) => j, Err(c) => { cx.violation("C15", "proof_gen/failed".into(), format!("n={n} hidden={hidden:?}: {c:?}")); return; } };
            let revealed: Vec<Integer> = (0..n).filter(|i| !hidden.contains(i)).map(|i| msgs[i].clone()).collect();
            let p = Presentation { pk: key.pk.clone(), bases: key.bases.0[..n].to_vec(), cpk: key.cpk.clone(), proof_json, revealed, hidden: hidden.clone(), n };
            deliver(cx, verifier, p.clone(), "none".into(), true);
            tamper(cx, verifier, key.clone(), p.clone());
            // Mallory: a presentation made from a signature nobody issued -- (v * a_i^k, m_i + k*e)
            // derived from the honest signature without the secret key -- with the shifted
            // (oversized or negative) attribute among the revealed ones
            if let Some(&ri) = (0..n).filter(|i| !hidden.contains(i)).collect::<Vec<_>>().first() {
                for k in [1i32, -1] {
                    let nmod = &key.pk.N;
                    let a = &key.bases.0[ri];
                    let ak = if k > 0 { pow(a, &Integer::from(k), nmod) } else { pow(&Integer::from(a.invert_ref(nmod).unwrap()), &Integer::from(-k), nmod) };
                    let forged_sig = (sig_copy.0.clone(), sig_copy.1.clone(), Integer::from(&sig_copy.2 * &ak) % nmod);
                    let mut forged_msgs = msgs.clone();
                    forged_msgs[ri] += Integer::from(&sig_copy.0 * k);
                    let (k4, h4, fm4) = (key.clone(), hidden.clone(), forged_msgs.clone());
                    let (key5, hidden5) = (key.clone(), hidden.clone());
                    cx.step(holder, "proof_gen-from-forged-signature", StepOpts::default(), move || holder_present(&k4, &forged_sig, &fm4, &h4), move |cx, st| {
                        let Ok(pj) = st.out else { cx.count("n.forged_presentation_not_producible"); return; };
                        let revealed: Vec<Integer> = (0..n).filter(|i| !hidden5.contains(i)).map(|i| forged_msgs[i].clone()).collect();
                        let q = Presentation { pk: key5.pk.clone(), bases: key5.bases.0[..n].to_vec(), cpk: key5.cpk.clone(), proof_json: pj, revealed, hidden: hidden5.clone(), n };
                        deliver(cx, verifier, q, format!("forged_signature_shift_by_e:k={k}"), false);
                    });
                }
            }
            // Mallory: sub-proofs of a second honest presentation of ANOTHER credential (other
            // attributes, same hidden set) spliced into this one
            if !hidden.is_empty() {
                let other: Vec<Integer> = (0..n).map(|i| gen_attr(cx.run_seed, 500 + i as u64, 0).value).collect();
                let (k3, h3) = (key.clone(), hidden.clone());
                cx.step(holder, "proof_gen-other", StepOpts::default(), move || { let sig = issue_plain(&k3, &other); holder_present(&k3, &sig, &other, &h3) }, move |cx, st| {
                    let Ok(pj2) = st.out else { return };
                    let (va, vb) = (parse(&p.proof_json), parse(&pj2));
                    for (name, path) in [("range_proofs_commited_mi[0]", "/CL03/range_proofs_commited_mi/0"), ("proofs_commited_mi[0]", "/CL03/proofs_commited_mi/0"), ("range_proof_e", "/CL03/range_proof_e"), ("spok", "/CL03/spok")] {
                        let mut v = va.clone();
                        if let (Some(slot), Some(src)) = (v.pointer_mut(path), vb.pointer(path)) { *slot = src.clone(); } else { continue; }
                        let mut q = p.clone();
                        q.proof_json = v.to_string();
                        deliver(cx, verifier, q, format!("forged_subproof_splice:{name}"), false);
                    }
                    {
                        let mut v = va.clone();
                        for path in ["/CL03/proofs_commited_mi/0", "/CL03/range_proofs_commited_mi/0"] { if let (Some(slot), Some(src)) = (v.pointer_mut(path), vb.pointer(path)) { *slot = src.clone(); } }
                        let mut q = p.clone();
                        q.proof_json = v.to_string();
                        deliver(cx, verifier, q, "forged_subproof_pair_splice:proofs_commited_mi[0]+range_proofs_commited_mi[0]".into(), false);
                    }
                });
            }
        });
    });
    cx.run();
}

/// Every eighth run: the holder generates presentations of a minimal credential until one chosen
/// Fiat-Shamir value of the proof (a different one per run) has a leading zero octet; that honest
/// presentation must verify like any other.
fn grind(cx: &mut Cx, issuer: NodeId, holder: NodeId, verifier: NodeId, key: Arc<KeyMat>) {
    let target = cx.run_index / 8;
    let hide = target % 2 == 1; // with one hidden attribute the per-attribute range proof is part of the frame
    let cap = if LN > 1024 { 60 } else if cx.thorough { 3000 } else { 700 }; // (seconds per generation at 2048 bits)
    let msgs = vec![gen_attr(cx.run_seed, 0, 0).value];
    let hidden: Vec<usize> = if hide { vec![0] } else { vec![] };
    let (k1, m1, h1) = (key.clone(), msgs.clone(), hidden.clone());
    let _ = issuer;
    cx.step(holder, "grind-proof_gen", StepOpts::default(), move || { let sig = issue_plain(&k1, &m1); grind_short_hash(|| holder_present(&k1, &sig, &m1, &h1), target / 2, cap) }, move |cx, st| {
        let Ok((pj, tries, path, hit)) = st.out else { cx.violation("C15", "proof_gen/failed".into(), "while grinding".into()); return; };
        cx.add("n.grinding_generations", tries as u64);
        if !hit { cx.count("probe.grinding_gave_up"); cx.log(format!("no short {path} in {tries} generations")); return; }
        cx.count("probe.honest_proof_with_leading_zero_octet_in_a_challenge");
        cx.log(format!("{path} has a leading zero octet after {tries} generations"));
        let revealed = if hide { vec![] } else { msgs.clone() };
        let p = Presentation { pk: key.pk.clone(), bases: key.bases.0[..1].to_vec(), cpk: key.cpk.clone(), proof_json: pj, revealed, hidden: hidden.clone(), n: 1 };
        deliver(cx, verifier, p, format!("none:short_hash_value:{}", generic_path(&path)), true);
    });
    cx.run();
}

fn tamper(cx: &mut Cx, verifier: NodeId, key: Arc<KeyMat>, p: Presentation) {
    let n = p.n;
    // single-field edits of the signer key and of the commitment key, each right after the same
    // verifier thread has verified the honest presentation under the unedited keys (whatever it
    // keeps per key must not outlive a change of one component)
    { let mut q = p.clone(); q.pk.b += 1; deliver(cx, verifier, q, "signer_key_b:+1".into(), false); }
    { let mut q = p.clone(); q.pk.b = Integer::from(&q.pk.b * &q.pk.b) % &q.pk.N; deliver(cx, verifier, q, "signer_key_b:squared".into(), false); }
    { let mut q = p.clone(); q.pk.c += 1; deliver(cx, verifier, q, "signer_key_c:+1".into(), false); }
    { let mut q = p.clone(); q.pk.N += 2; deliver(cx, verifier, q, "signer_key_N:+2".into(), false); }
    deliver(cx, verifier, p.clone(), "none:warm_up_before_key_edits".into(), true);
    { let mut q = p.clone(); q.cpk.N += 2; deliver(cx, verifier, q, "commitment_key_N:+2".into(), false); }
    if let Some(other) = other_pool_key(key.idx) { let mut q = p.clone(); q.cpk.N = other.pk.N.clone(); deliver(cx, verifier, q, "commitment_key_N:other_issuer".into(), false); }
    { let mut q = p.clone(); q.cpk.g_bases[0] += 1; deliver(cx, verifier, q, "commitment_key_g0:+1".into(), false); }
    if let Some(&h0) = p.hidden.first() { if h0 != 0 { let mut q = p.clone(); q.cpk.g_bases[h0] += 1; deliver(cx, verifier, q, "commitment_key_g_hidden:+1".into(), false); } }
    // revealed attributes
    for i in 0..p.revealed.len() {
        { let mut q = p.clone(); q.revealed[i] += 1; deliver(cx, verifier, q, format!("revealed_alter:+1@{i}"), false); }
        { let mut q = p.clone(); q.revealed[i] = gen_attr(cx.run_seed, 800 + i as u64, 0).value; deliver(cx, verifier, q, format!("revealed_alter:other@{i}"), false); }
    }
    if p.revealed.len() >= 2 && p.revealed[0] != p.revealed[1] { let mut q = p.clone(); q.revealed.swap(0, 1); deliver(cx, verifier, q, "revealed_swap".into(), false); }
    if !p.revealed.is_empty() { let mut q = p.clone(); q.revealed.pop(); deliver(cx, verifier, q, "revealed_drop_last".into(), false); }
    // a surplus entry at the end of the list; the whole attribute vector with something at the hidden positions
    { let mut q = p.clone(); q.revealed.push(Integer::from(5)); deliver(cx, verifier, q, "revealed_append".into(), false); }
    if !p.hidden.is_empty() {
        let mut full: Vec<Integer> = Vec::new(); let mut k = 0;
        for i in 0..n { if p.hidden.contains(&i) { full.push(gen_attr(cx.run_seed, 850 + i as u64, 0).value); } else { full.push(p.revealed[k].clone()); k += 1; } }
        let mut q = p.clone(); q.revealed = full; deliver(cx, verifier, q, "revealed_full_vector_with_guesses".into(), false);
    }
    // keys and bases
    if let Some(other) = other_pool_key(key.idx) { let mut q = p.clone(); q.pk = other.pk.clone(); deliver(cx, verifier, q, "misroute_key".into(), false); }
    // (a base only matters for hidden attributes and for revealed non-zero ones: a_i^0 = 1)
    let revealed_idx: Vec<usize> = (0..n).filter(|i| !p.hidden.contains(i)).collect();
    let bases_matter = !p.hidden.is_empty() || revealed_idx.iter().enumerate().any(|(k, _)| p.revealed[k] != 0);
    if bases_matter { let mut q = p.clone(); q.bases = key.bases2.0[..n].to_vec(); deliver(cx, verifier, q, "misroute_bases".into(), false); }
    { let mut q = p.clone(); q.cpk = key.cpk2.clone(); deliver(cx, verifier, q, "misroute_commitment_key".into(), false); }
    { let mut q = p.clone(); q.cpk.h += 1; deliver(cx, verifier, q, "commitment_key_h:+1".into(), false); }
    // hidden set and count
    if let Some(extra) = (0..n).find(|i| !p.hidden.contains(i)) { let mut q = p.clone(); q.hidden.push(extra); q.hidden.sort(); deliver(cx, verifier, q, "hidden_set:+1".into(), false); }
    if !p.hidden.is_empty() { let mut q = p.clone(); q.hidden.pop(); deliver(cx, verifier, q, "hidden_set:-1".into(), false); }
    if n > 1 && !p.hidden.is_empty() && p.hidden.len() < n { let h: Vec<usize> = p.hidden.iter().map(|i| (i + 1) % n).collect(); let mut hs = h; hs.sort(); let mut own = p.hidden.clone(); own.sort(); if hs != own { let mut q = p.clone(); q.hidden = hs; deliver(cx, verifier, q, "hidden_set:shifted".into(), false); } }
    // (dropping a trailing revealed zero attribute is the same statement: a_i^0 = 1)
    let last_is_revealed_zero = !p.hidden.contains(&(n - 1)) && p.revealed.last().map(|x| *x == 0).unwrap_or(false);
    if n > 1 && !last_is_revealed_zero { let mut q = p.clone(); q.n = n - 1; deliver(cx, verifier, q, "n:-1".into(), false); }
    if n < MAX_ATTR { let mut q = p.clone(); q.n = n + 1; q.bases = key.bases.0[..n + 1].to_vec(); deliver(cx, verifier, q, "n:+1".into(), false); }
    { let mut q = p.clone(); q.n = n + 1; deliver(cx, verifier, q, "n:+1_with_n_bases".into(), false); }
    { let mut q = p.clone(); q.n = n + 7; deliver(cx, verifier, q, "n:+7_with_n_bases".into(), false); }
    // hidden-index lists with a duplicate and with an index beyond n (the commitment key has more bases)
    if !p.hidden.is_empty() { let mut q = p.clone(); q.hidden.push(p.hidden[0]); deliver(cx, verifier, q, "hidden_set:duplicate".into(), false); }
    { let mut q = p.clone(); q.hidden.push(n); deliver(cx, verifier, q, "hidden_set:+index_n".into(), false); }
    // the per-attribute sub-proof arrays shortened (last entry removed / emptied / both consistently)
    {
        let v0 = parse(&p.proof_json);
        for (name, paths) in [("proofs_commited_mi", vec!["/CL03/proofs_commited_mi"]), ("range_proofs_commited_mi", vec!["/CL03/range_proofs_commited_mi"]), ("both", vec!["/CL03/proofs_commited_mi", "/CL03/range_proofs_commited_mi"])] {
            for how in ["last", "all"] {
                let mut v = v0.clone();
                let mut changed = false;
                for path in &paths { if let Some(serde_json::Value::Array(a)) = v.pointer_mut(path) { if !a.is_empty() { changed = true; if how == "last" { a.pop(); } else { a.clear(); } } } }
                if !changed { continue; }
                let mut q = p.clone(); q.proof_json = v.to_string();
                deliver(cx, verifier, q, format!("forged_subproof_array_shortened:{name}:{how}"), false);
            }
        }
    }
    // ... and LENGTHENED: the last entry of each array repeated (for an empty response list: a copy
    // of s_1 appended) -- a verifier that reads the arrays by position never looks at the surplus
    {
        let v0 = parse(&p.proof_json);
        let s1 = v0.pointer("/CL03/spok/s_1").cloned();
        for (name, path) in [("spok.s_5", "/CL03/spok/s_5"), ("proofs_commited_mi", "/CL03/proofs_commited_mi"), ("range_proofs_commited_mi", "/CL03/range_proofs_commited_mi")] {
            let mut v = v0.clone();
            let Some(serde_json::Value::Array(a)) = v.pointer_mut(path) else { continue };
            match (a.last().cloned(), name, &s1) { (Some(last), _, _) => a.push(last), (None, "spok.s_5", Some(x)) => a.push(x.clone()), _ => continue }
            let mut q = p.clone(); q.proof_json = v.to_string();
            cx.count("probe.subproof_array_lengthened");
            deliver(cx, verifier, q, format!("forged_subproof_array_lengthened:{name}"), false);
        }
    }
    // every integer leaf of the serialized proof, a slice per run
    let v = parse(&p.proof_json);
    let ls = leaves(&v);
    let per = if cx.thorough { 30 } else { 10 };
    let nsl = (ls.len() as u64 + per - 1) / per;
    let slice = cx.ch.forced("leaf_slice", nsl.max(1), cx.run_index);
    cx.add("n.proof_leaves", ls.len() as u64);
    for k in (slice * per) as usize..(((slice + 1) * per) as usize).min(ls.len()) {
        let ps = perturbations_mod(&ls, k, &p.pk.N);
        let pick = cx.ch.choose("perturbation", ps.len() as u64) as usize;
        let (pname, edits) = &ps[pick];
        let mut v2 = v.clone();
        for (pp, x) in edits { set_leaf(&mut v2, pp, x); }
        let mut q = p.clone();
        q.proof_json = v2.to_string();
        deliver(cx, verifier, q, format!("leaf:{}:{pname}", generic_path(&ls[k].0)), false);
    }
    // ... and the honest presentation once more after everything the verifier has been shown
    deliver(cx, verifier, p.clone(), "none:again_after_the_tampered_deliveries".into(), true);
}
