//! C18: generated CL03 keys and parameters are well formed (checked with an independent
//! big-integer computation by a monitor that knows p and q) and survive their encodings
//! across a node restart; random exponents have exactly the configured length.
use crate::kit::*;
use rug::integer::IsPrime;
use rug::Integer;
use zkryptium::cl03::bases::Bases;
use zkryptium::cl03::keys::{CL03CommitmentPublicKey, CL03PublicKey, CL03SecretKey};
use zkryptium::keys::pair::KeyPair;
use zkryptium::schemes::generics::Signature;
use zkryptium::utils::random::{rand_int, random_bits};
use std::sync::Arc;
use zksim_core::sim::{Cx, NodeId, StepOpts};

fn check_element(cx: &mut Cx, what: &str, x: &Integer, n: &Integer, pq: Option<(&Integer, &Integer)>) {
    cx.count("n.group_elements_checked");
    if !(*x > 1 && x < n) { cx.violation("C18", format!("element/{what}/out-of-range"), format!("{what} = {} not in (1, N)", x.to_string_radix(16))); return; }
    if Integer::from(x.gcd_ref(n)) != 1 { cx.violation("C18", format!("element/{what}/not-coprime"), format!("gcd({what}, N) != 1")); }
    match pq {
        Some((p, q)) => { if x.jacobi(p) != 1 || x.jacobi(q) != 1 { cx.violation("C18", format!("element/{what}/not-a-quadratic-residue"), format!("Jacobi({what}|p) = {}, Jacobi({what}|q) = {}", x.jacobi(p), x.jacobi(q))); } }
        None => { if x.jacobi(n) != 1 { cx.violation("C18", format!("element/{what}/jacobi-N"), format!("Jacobi({what}|N) = {}", x.jacobi(n))); } }
    }
}

fn check_modulus(cx: &mut Cx, what: &str, p: &Integer, q: &Integer, n: &Integer) {
    if Integer::from(p * q) != *n { cx.violation("C18", format!("{what}/N!=p*q"), String::new()); }
    if p == q { cx.violation("C18", format!("{what}/p==q"), String::new()); }
    for (name, x) in [("p", p), ("q", q)] {
        if x.is_probably_prime(40) == IsPrime::No { cx.violation("C18", format!("{what}/{name}-not-prime"), x.to_string_radix(16)); }
        let half = Integer::from(x - 1u32) / 2u32;
        if half.is_probably_prime(40) == IsPrime::No { cx.violation("C18", format!("{what}/({name}-1)/2-not-prime"), x.to_string_radix(16)); }
        if x.significant_bits() != PRIME_BITS { cx.violation("C18", format!("{what}/{name}-bit-length"), format!("{} bits, expected {PRIME_BITS}", x.significant_bits())); }
    }
}

pub fn run_c18(cx: &mut Cx) {
    let issuer = cx.node("issuer");
    let n_attr = 1 + cx.ch.choose("n_attr", 5) as usize;
    let own_modulus = cx.run_index % 2 == 0;
    let opts = StepOpts { eintr: cx.ch.choose("eintr", 4) as i32, short_reads: cx.ch.choose("short", 4) as i32, ..Default::default() };
    cx.log(format!("generate: n_attr={n_attr} own_modulus_commitment_key={own_modulus}"));
    cx.step(issuer, "generate", opts, move || {
        let kp = KeyPair::<Sch>::generate();
        let (sk, pk) = kp.into_parts();
        let bases = Bases::generate(&pk, n_attr);
        let cpk = CL03CommitmentPublicKey::generate::<CS>(Some(pk.N.clone()), Some(n_attr));
        let cpk_own = if own_modulus { Some(CL03CommitmentPublicKey::generate::<CS>(None, Some(n_attr))) } else { None };
        (pk, sk, bases, cpk, cpk_own)
    }, move |cx, st| {
        if st.ent.2 > 0 { cx.count("probe.EINTR_during_key_generation"); }
        if st.ent.3 > 0 { cx.count("probe.short_read_during_key_generation"); }
        let (pk, sk, bases, cpk, cpk_own) = match st.out { Ok(x) => x, Err(c) => { cx.violation("C18", "generate/failed".into(), format!("{c:?}")); return; } };
        cx.eval(&[b"key", pk.N.to_string_radix(16).as_bytes()], true);
        check_modulus(cx, "issuer-key", &sk.p, &sk.q, &pk.N);
        check_element(cx, "b", &pk.b, &pk.N, Some((&sk.p, &sk.q)));
        check_element(cx, "c", &pk.c, &pk.N, Some((&sk.p, &sk.q)));
        if bases.0.len() != n_attr { cx.violation("C18", "bases/count".into(), format!("{} for {n_attr}", bases.0.len())); }
        for a in &bases.0 { check_element(cx, "a_i", a, &pk.N, Some((&sk.p, &sk.q))); }
        if cpk.N != pk.N { cx.violation("C18", "commitment-key/modulus-differs-from-issuer".into(), String::new()); }
        check_element(cx, "h", &cpk.h, &cpk.N, Some((&sk.p, &sk.q)));
        if cpk.g_bases.len() != n_attr { cx.violation("C18", "commitment-key/base-count".into(), format!("{} for {n_attr}", cpk.g_bases.len())); }
        for g in &cpk.g_bases { check_element(cx, "g_i", g, &cpk.N, Some((&sk.p, &sk.q))); }
        // all distinct
        let mut all: Vec<&Integer> = vec![&pk.b, &pk.c, &cpk.h];
        all.extend(bases.0.iter()); all.extend(cpk.g_bases.iter());
        let mut s = all.clone(); s.sort(); s.dedup();
        if s.len() != all.len() { cx.violation("C18", "element/repeated".into(), "two generated group elements coincide".into()); }
        if let Some(co) = &cpk_own {
            cx.count("probe.own_modulus_commitment_key");
            if co.N == pk.N { cx.violation("C18", "commitment-key-own/modulus-equals-issuer".into(), String::new()); }
            if co.N.significant_bits() < 2 * PRIME_BITS - 1 || co.N.significant_bits() > 2 * PRIME_BITS { cx.violation("C18", "commitment-key-own/modulus-bit-length".into(), format!("{} bits", co.N.significant_bits())); }
            if co.N.is_probably_prime(30) != IsPrime::No || co.N.is_perfect_square() { cx.violation("C18", "commitment-key-own/modulus-shape".into(), String::new()); }
            // a product of two 513-bit safe primes has no small prime factor (the factors themselves are
            // discarded by the library, so this is the strongest check available)
            if let Some(f) = small_factor(&co.N, 1 << 20) { cx.violation("C18", "commitment-key-own/modulus-has-small-factor".into(), format!("N is divisible by {f}: not a product of two safe primes")); }
            // N = (2p'+1)(2q'+1) with odd primes p', q' implies N = 1 mod 4 is impossible to test alone,
            // but N mod 4 must be 1 (both factors are 3 mod 4)
            if co.N.mod_u(4) != 1 { cx.violation("C18", "commitment-key-own/modulus-not-1-mod-4".into(), String::new()); }
            check_element(cx, "h(own)", &co.h, &co.N, None);
            for g in &co.g_bases { check_element(cx, "g_i(own)", g, &co.N, None); }
        }
        // signatures obtained through BLIND issuance under this key (commit, proof, blind_sign,
        // unblind) survive their byte encoding like directly issued ones: v canonical, decoded
        // signature equal and verifying
        {
            let km = Arc::new(KeyMat { idx: 0, pk: pk.clone(), sk: sk.clone(), bases: bases.clone(), cpk: cpk.clone(), bases2: bases.clone(), cpk2: cpk.clone(), tp_cpk: cpk.clone(), bases_wide: bases.clone(), cpk_wide: cpk.clone() });
            let count = if cx.thorough { 30usize } else { 10 };
            let seed = cx.run_seed;
            let blind_node = cx.node("blind-issuance");
            cx.step(blind_node, "blind-issue-and-encode", StepOpts::default(), move || {
                use crate::sessions::*;
                let mut bad: Vec<String> = Vec::new();
                for j in 0..count {
                    let msgs = vec![gen_attr(seed, 4000 + j as u64, 0).value];
                    let hc = holder_commit_and_prove(&km, &msgs, &[0], false);
                    let req = IssueRequest { pk: km.pk.clone(), bases: km.bases.0[..1].to_vec(), tp_cpk: None, c_value: hc.c_value.clone(), ct_value: None, zk_json: hc.zk_json.clone(), revealed: vec![], revealed_idx: vec![], hidden: vec![0] };
                    let (_, Some(bs)) = issuer_handle(&km, &req) else { bad.push(format!("#{j}: the issuer refused an honest request")); continue; };
                    let (ok, (e, s, v)) = match holder_unblind(&km, &bs, &hc, &msgs) { Ok(t) => t, Err(x) => { bad.push(format!("#{j}: unblind: {x}")); continue; } };
                    if !ok { bad.push(format!("#{j}: the unblinded signature does not verify")); continue; }
                    if v <= 0 || v >= km.pk.N { bad.push(format!("#{j}: v is not in (0, N): sign {:?}, {} bits", v.cmp0(), v.significant_bits())); }
                    let sig = crate::scen_sig::sig_from_parts(&e, &s, &v).ok_or("construct")?;
                    let back = Signature::<Sch>::from_bytes(&sig.to_bytes());
                    if back != sig { bad.push(format!("#{j}: from_bytes(to_bytes(sig)) != sig")); }
                    if !back.verify_multiattr(&km.pk, &Bases(km.bases.0[..1].to_vec()), &msgs_of(&msgs)) { bad.push(format!("#{j}: the decoded signature does not verify")); }
                }
                Ok::<_, String>(bad)
            }, move |cx, st| {
                cx.eval(&[b"blind-issued-bytes", &seed.to_le_bytes()], true);
                cx.add("n.blind_issued_signatures_encoded", count as u64);
                match st.out { Ok(Ok(bad)) if bad.is_empty() => cx.count("verdict.roundtrip.ok"), other => cx.violation("C18", "encoding/blind-issued-signature-bytes".into(), format!("{other:?}")) }
            });
        }
        // encodings across a restart
        cx.restart(issuer);
        let (pk2, sk2, b2) = (pk.clone(), sk.clone(), bases.clone());
        cx.step(issuer, "roundtrip", StepOpts::default(), move || {
            let m = gen_attr(1, 1, 0);
            let sig = Signature::<Sch>::sign(&pk2, &sk2, &b2, &m);
            let pkb = pk2.to_bytes::<Sch>();
            let skb = sk2.to_bytes::<Sch>();
            let sgb = sig.to_bytes();
            // and a signature whose v has a leading zero octet
            let (e0, s0, v0) = crate::scen_sig::sig_parts(&sig);
            let short_ok = match short_v_variant(&pk2, &e0, &s0, &v0) {
                Some((e1, s1, v1, _)) => { let sg = crate::scen_sig::sig_from_parts(&e1, &s1, &v1).unwrap(); let back = Signature::<Sch>::from_bytes(&sg.to_bytes()); back == sg && back.verify_multiattr(&pk2, &b2, &[m.clone()]) }
                None => true,
            };
            let pk3 = CL03PublicKey::from_bytes::<Sch>(&pkb);
            let sk3 = CL03SecretKey::from_bytes::<Sch>(&skb);
            let sg3 = Signature::<Sch>::from_bytes(&sgb);
            let pkj: CL03PublicKey = serde_json::from_str(&serde_json::to_string(&pk2).unwrap()).unwrap();
            let skj: CL03SecretKey = serde_json::from_str(&serde_json::to_string(&sk2).unwrap()).unwrap();
            let sgj: Signature<Sch> = serde_json::from_str(&serde_json::to_string(&sig).unwrap()).unwrap();
            let kp: KeyPair<Sch> = serde_json::from_value(serde_json::json!({"public": pk2, "private": sk2})).unwrap();
            (pk3 == pk2, sk3 == sk2, sg3 == sig, pkj == pk2, skj == sk2, sgj == sig, kp.public_key() == &pk2 && kp.private_key() == &sk2, sg3.verify(&pk3, &b2, &m), pk3.to_bytes::<Sch>() == pkb && short_ok)
        }, move |cx, st| {
            cx.eval(&[b"roundtrip", pk.N.to_string_radix(16).as_bytes()], true);
            cx.count("fault.restart_reload");
            match st.out {
                Ok((true, true, true, true, true, true, true, true, true)) => cx.count("verdict.roundtrip.ok"),
                Ok(t) => cx.violation("C18", "encoding/roundtrip".into(), format!("(pk bytes, sk bytes, sig bytes, pk json, sk json, sig json, keypair json, decoded-verifies, re-encode and short-v signature bytes) = {t:?}")),
                Err(c) => cx.violation("C18", "encoding/roundtrip-crash".into(), format!("{c:?}")),
            }
        });
    });
    // the key store on disk: the library's own writer (KeyPair::write_keypair_to_file), a path with
    // a HISTORY (nothing there / a longer older document / a shorter one / an earlier key pair of
    // this run), a crash of the role, and the reload of whatever the file then holds
    {
        let store = cx.node("key-store");
        let path = std::env::temp_dir().join(format!("zksim-keystore-{}-{}-{}.json", std::process::id(), cx.run_index, cx.run_seed & 0xffff)).to_string_lossy().to_string();
        let history = cx.ch.choose("file_history", 4);
        cx.count(&format!("fault.store_file_history_{}", ["fresh_path", "longer_older_document", "shorter_older_document", "rotation_after_another_key"][history as usize]));
        let p1 = path.clone();
        cx.step(store, "write-key-file", StepOpts::default(), move || {
            let kp = KeyPair::<Sch>::generate();
            let json = serde_json::to_string_pretty(&kp).map_err(|e| e.to_string())?;
            match history {
                0 => { let _ = std::fs::remove_file(&p1); }
                1 => std::fs::write(&p1, format!("{json}\n{}\n{{\"stale\": true}}\n", " ".repeat(300))).map_err(|e| e.to_string())?,
                2 => std::fs::write(&p1, "{}").map_err(|e| e.to_string())?,
                _ => { let older = KeyPair::<Sch>::generate(); older.write_keypair_to_file(Some(p1.clone())); let mut f = std::fs::OpenOptions::new().append(true).open(&p1).map_err(|e| e.to_string())?; use std::io::Write; f.write_all(b"\n\n").map_err(|e| e.to_string())?; }
            }
            kp.write_keypair_to_file(Some(p1.clone()));
            Ok::<_, String>((serde_json::to_string(kp.public_key()).unwrap(), serde_json::to_string(kp.private_key()).unwrap()))
        }, move |cx, st| {
            let (pkj, skj) = match st.out { Ok(Ok(t)) => t, other => { cx.violation("C18", "store/write-failed".into(), format!("{other:?}")); let _ = std::fs::remove_file(&path); return; } };
            cx.restart(store);
            let p2 = path.clone();
            cx.step(store, "reload-key-file", StepOpts::default(), move || {
                let text = std::fs::read_to_string(&p2).map_err(|e| e.to_string())?;
                let _ = std::fs::remove_file(&p2);
                let kp: KeyPair<Sch> = serde_json::from_str(&text).map_err(|e| format!("the stored document does not parse: {e}"))?;
                Ok::<_, String>((serde_json::to_string(kp.public_key()).unwrap(), serde_json::to_string(kp.private_key()).unwrap()))
            }, move |cx, st| {
                cx.eval(&[b"key-file", pkj.as_bytes(), &[history as u8]], true);
                cx.count("fault.restart_reload_from_file");
                match st.out {
                    Ok(Ok((a, b))) if a == pkj && b == skj => cx.count("verdict.roundtrip.ok"),
                    other => cx.violation("C18", "store/key-file-does-not-read-back".into(), format!("file history {history}: {:?}", other.map(|r| r.map(|_| "another key")))),
                }
            });
        });
    }
    // ... and several roles of one process storing DIFFERENT key pairs into the same directory at
    // the same time (a burst: real overlap inside write_keypair_to_file), each reading its own
    // file back after every write
    if POOL_SIZE >= 4 && cx.ch.chance("concurrent_key_writes", 1, 2) {
        let nodes: Vec<NodeId> = (0..4).map(|i| cx.node(&format!("store{i}"))).collect();
        let dir = std::env::temp_dir();
        let tag = format!("{}-{}", std::process::id(), cx.run_index);
        cx.count("probe.concurrent_key_file_writes");
        let rounds = 25usize;
        let steps: Vec<(NodeId, Box<dyn FnOnce() -> Vec<String> + Send>)> = nodes.iter().enumerate().map(|(i, &nd)| {
            let k = pool_key(i as u64);
            let path = dir.join(format!("zksim-keystore-burst-{tag}-{i}.json")).to_string_lossy().to_string();
            let f: Box<dyn FnOnce() -> Vec<String> + Send> = Box::new(move || {
                let mut bad = Vec::new();
                let kp: KeyPair<Sch> = match serde_json::from_value(serde_json::json!({"public": k.pk, "private": k.sk})) { Ok(x) => x, Err(e) => return vec![format!("construct: {e}")] };
                for r in 0..rounds {
                    if std::panic::catch_unwind(std::panic::AssertUnwindSafe(|| kp.write_keypair_to_file(Some(path.clone())))).is_err() { bad.push(format!("round {r}: the write panicked")); continue; }
                    match std::fs::read_to_string(&path).map_err(|e| e.to_string()).and_then(|t| serde_json::from_str::<KeyPair<Sch>>(&t).map_err(|e| e.to_string())) {
                        Ok(back) if back.public_key() == &k.pk && back.private_key() == &k.sk => {}
                        Ok(_) => bad.push(format!("round {r}: the file holds ANOTHER key pair")),
                        Err(e) => bad.push(format!("round {r}: {e}")),
                    }
                }
                let _ = std::fs::remove_file(&path);
                bad
            });
            (nd, f)
        }).collect();
        cx.burst(steps, "write key files concurrently", move |cx, outs| {
            for (i, st) in outs.into_iter().enumerate() {
                cx.eval(&[b"key-file-burst", &[i as u8], tag.as_bytes()], true);
                cx.count("fault.concurrent_calls");
                match st.out { Ok(bad) if bad.is_empty() => cx.count("verdict.roundtrip.ok"), other => cx.violation("C18", "store/concurrent-writers-disturb-each-other".into(), format!("role {i} of 4 writing its own key file {rounds} times: {:?}", other.map(|b| b.into_iter().take(3).collect::<Vec<_>>()))) }
            }
        });
        cx.run();
    }
    // public keys and commitment keys of the sizes of EVERY suite (moduli of 1026, 2050 and 3074
    // bits; plain primes, the JSON codec does not care) through the serde round trip
    {
        let sizes = cx.node("suite-sizes");
        let seed = cx.run_seed;
        let bits = [1026u32, 2050, 3074][cx.ch.choose("suite_modulus_bits", 3) as usize];
        cx.step(sizes, "json-roundtrip-other-sizes", StepOpts::default(), move || {
            let cpk = odd_size_tp_key(seed, bits, 3);
            let pk = CL03PublicKey { N: cpk.N.clone(), b: cpk.h.clone(), c: cpk.g_bases[0].clone() };
            let pk2: Result<CL03PublicKey, _> = serde_json::from_str(&serde_json::to_string(&pk).unwrap());
            let cpk2: Result<CL03CommitmentPublicKey, _> = serde_json::from_str(&serde_json::to_string(&cpk).unwrap());
            (pk2.map(|x| x == pk).map_err(|e| e.to_string()), cpk2.map(|x| x == cpk).map_err(|e| e.to_string()), cpk.N.significant_bits())
        }, move |cx, st| {
            cx.eval(&[b"other-sizes", &bits.to_le_bytes()], true);
            match st.out {
                Ok((Ok(true), Ok(true), _)) => cx.count("verdict.roundtrip.ok"),
                other => cx.violation("C18", "encoding/json-roundtrip-of-a-key-of-another-suite-size".into(), format!("modulus of {bits} bits: {other:?}")),
            }
        });
    }
    // keys with MANY bases (more than 9, more than 64: list positions of two and more digits)
    // through every serde_json front end: string, pretty string, Value, reader
    {
        let wide = cx.node("wide-keys");
        let k = pool_key(cx.ch.forced("pool_key_wide", POOL_SIZE, cx.run_index));
        let n = [10usize, 11, 12, 20, 65, WIDE][cx.ch.forced("wide_n", 6, cx.run_index) as usize];
        cx.count("probe.json_roundtrip_of_keys_with_more_than_nine_bases");
        cx.step(wide, "json-roundtrip-many-bases", StepOpts::default(), move || {
            let cpk = CL03CommitmentPublicKey { N: k.cpk_wide.N.clone(), h: k.cpk_wide.h.clone(), g_bases: k.cpk_wide.g_bases[..n].to_vec() };
            let bases = zkryptium::cl03::bases::Bases(k.bases_wide.0[..n].to_vec());
            let mut bad: Vec<String> = Vec::new();
            let text = serde_json::to_string(&cpk).unwrap();
            let pretty = serde_json::to_string_pretty(&cpk).unwrap();
            let value = serde_json::to_value(&cpk).unwrap();
            match serde_json::from_str::<CL03CommitmentPublicKey>(&text) { Ok(x) if x == cpk => {} Ok(_) => bad.push("commitment key, string: decodes to another key".into()), Err(e) => bad.push(format!("commitment key, string: {e}")) }
            match serde_json::from_str::<CL03CommitmentPublicKey>(&pretty) { Ok(x) if x == cpk => {} Ok(_) => bad.push("commitment key, pretty string: decodes to another key".into()), Err(e) => bad.push(format!("commitment key, pretty string: {e}")) }
            match serde_json::from_value::<CL03CommitmentPublicKey>(value) { Ok(x) if x == cpk => {} Ok(_) => bad.push("commitment key, Value: decodes to another key".into()), Err(e) => bad.push(format!("commitment key, Value: {e}")) }
            match serde_json::from_reader::<_, CL03CommitmentPublicKey>(text.as_bytes()) { Ok(x) if x == cpk => {} Ok(_) => bad.push("commitment key, reader: decodes to another key".into()), Err(e) => bad.push(format!("commitment key, reader: {e}")) }
            let bt = serde_json::to_string(&bases).unwrap();
            match serde_json::from_str::<zkryptium::cl03::bases::Bases>(&bt) { Ok(x) if x.0 == bases.0 => {} Ok(_) => bad.push("bases, string: decode to other bases".into()), Err(e) => bad.push(format!("bases, string: {e}")) }
            match serde_json::from_value::<zkryptium::cl03::bases::Bases>(serde_json::to_value(&bases).unwrap()) { Ok(x) if x.0 == bases.0 => {} Ok(_) => bad.push("bases, Value: decode to other bases".into()), Err(e) => bad.push(format!("bases, Value: {e}")) }
            bad
        }, move |cx, st| {
            cx.eval(&[b"many-bases", &(n as u64).to_le_bytes()], true);
            match st.out {
                Ok(bad) if bad.is_empty() => cx.count("verdict.roundtrip.ok"),
                other => cx.violation("C18", "encoding/json-roundtrip-of-a-key-with-many-bases".into(), format!("{n} bases: {other:?}")),
            }
        });
    }
    // commitment keys over a SUPPLIED modulus small enough for the rare branches of the generator to
    // be the common ones: a product of two small safe primes, where h^f = 1 for one exponent in a
    // few (ord(h) is 3, 5, 11, 15, ...).  Every element must still differ from 1, be coprime to N,
    // be a square and lie in the subgroup generated by h -- all decided by brute force
    {
        let small = cx.node("small-moduli");
        let nmod = [77u32, 161, 253, 1081, 2021, 3901][cx.ch.forced("small_modulus", 6, cx.run_index) as usize];
        cx.count("probe.commitment_key_over_a_small_supplied_modulus");
        cx.step(small, "commitment-keys-over-small-modulus", StepOpts::default(), move || {
            let mut bad: Vec<String> = Vec::new();
            for round in 0..40 {
                let cpk = CL03CommitmentPublicKey::generate::<CS>(Some(Integer::from(nmod)), Some(6));
                let n = nmod as u64;
                let h = cpk.h.to_u64().unwrap_or(0);
                let squares: std::collections::BTreeSet<u64> = (1..n).map(|y| y * y % n).collect();
                let mut sub = std::collections::BTreeSet::new();
                let mut x = 1u64; loop { x = x * h % n; if !sub.insert(x) { break; } }
                let gcd = |a: u64, b: u64| { let (mut a, mut b) = (a, b); while b != 0 { let t = a % b; a = b; b = t; } a };
                if cpk.N != nmod { bad.push(format!("round {round}: N = {}", cpk.N)); }
                for (name, v) in std::iter::once(("h".to_string(), h)).chain(cpk.g_bases.iter().enumerate().map(|(i, g)| (format!("g_{i}"), g.to_u64().unwrap_or(0)))) {
                    if v <= 1 || v >= n { bad.push(format!("round {round}: {name} = {v} (h = {h})")); continue; }
                    if gcd(v, n) != 1 { bad.push(format!("round {round}: gcd({name} = {v}, N) != 1")); }
                    if !squares.contains(&v) { bad.push(format!("round {round}: {name} = {v} is not a square")); }
                    if name != "h" && !sub.contains(&v) { bad.push(format!("round {round}: {name} = {v} is not a power of h = {h}")); }
                }
                if cpk.g_bases.len() != 6 { bad.push(format!("round {round}: {} bases for 6 attributes", cpk.g_bases.len())); }
            }
            bad
        }, move |cx, st| {
            cx.eval(&[b"small-modulus", &nmod.to_le_bytes()], true);
            match st.out {
                Ok(bad) if bad.is_empty() => cx.count("verdict.wellformed.ok"),
                Ok(bad) => cx.violation("C18", "commitment-key/element-over-a-small-supplied-modulus".into(), format!("N = {nmod}: {:?}", bad.into_iter().take(4).collect::<Vec<_>>())),
                Err(c) => cx.violation("C18", "commitment-key/generation-over-a-small-supplied-modulus-crashed".into(), format!("N = {nmod}: {c:?}")),
            }
        });
    }
    // random exponents: exact lengths and ranges, on a node thread with entropy faults
    let drawer: NodeId = cx.node("drawer");
    let bits = [1u32, 2, 8, 63, 64, 65, 256, 258, 1024, 1536][cx.ch.choose("bits", 10) as usize];
    let opts = StepOpts { eintr: cx.ch.choose("eintr2", 3) as i32, short_reads: cx.ch.choose("short2", 3) as i32, ..Default::default() };
    let lo = Integer::from(cx.ch.choose("lo", 1000) as i64 - 500);
    let span = Integer::from(1) << (cx.ch.choose("span_bits", 300) as u32);
    let hi = Integer::from(&lo + &span);
    cx.step(drawer, "draws", opts, move || {
        let mut bad_bits = 0u32; let mut bad_range = 0u32; let mut distinct = std::collections::BTreeSet::new();
        for _ in 0..400 {
            let r = random_bits(bits);
            if r.significant_bits() != bits { bad_bits += 1; }
            if bits >= 64 { distinct.insert(r.to_string_radix(16)); }
            let x = rand_int(lo.clone(), hi.clone());
            if x < lo || x > hi { bad_range += 1; }
        }
        let tight = rand_int(lo.clone(), lo.clone());
        (bad_bits, bad_range, distinct.len(), tight == lo)
    }, move |cx, st| {
        cx.eval(&[b"draws", &bits.to_le_bytes()], true);
        cx.add("n.random_draws", 800);
        match st.out {
            Ok((bb, br, d, tight)) => {
                if bb > 0 { cx.violation("C18", "random_bits/wrong-length".into(), format!("{bb} of 400 draws of random_bits({bits}) do not have exactly {bits} bits")); }
                if br > 0 { cx.violation("C18", "rand_int/out-of-range".into(), format!("{br} of 400 draws outside [a, b]")); }
                if bits >= 64 && d < 400 { cx.violation("C18", "random_bits/repeats".into(), format!("only {d} distinct values in 400 draws of {bits} bits")); }
                if !tight { cx.violation("C18", "rand_int/degenerate-interval".into(), "rand_int(a, a) != a".into()); }
            }
            Err(c) => cx.violation("C18", "random/crash".into(), format!("{c:?}")),
        }
    });
    // the same generators over SMALL moduli that are products of two distinct safe primes (a
    // caller-supplied issuer modulus is plain data): the rare branches of the re-draw loops
    // (square roots of unity, elements sharing a factor with N) are hit every few draws there
    let (p, q) = [(7u32, 11u32), (11, 23), (23, 47), (47, 59), (59, 83), (83, 107), (167, 179)][cx.ch.choose("small_modulus", 7) as usize];
    let small_span = [1u32, 2, 3, 5, 6, 7, 10, 100, 255, 256, 257][cx.ch.choose("small_span", 11) as usize];
    let lo2 = Integer::from(cx.ch.choose("lo2", 1000) as i64 - 500);
    cx.count("probe.small_safe_prime_modulus");
    let lo3 = lo2.clone();
    cx.step(drawer, "draws-small-modulus", StepOpts { tick_budget: 100_000, ..Default::default() }, move || {
        let lo2 = lo3;
        let n = Integer::from(p) * Integer::from(q);
        let mut out: Vec<Integer> = (0..300).map(|_| zkryptium::utils::random::random_qr(&n)).collect();
        let pk = zkryptium::cl03::keys::CL03PublicKey { N: n.clone(), b: out[0].clone(), c: out[1].clone() };
        out.extend(Bases::generate(&pk, 40).0);
        let hi = Integer::from(&lo2 + small_span);
        let draws: Vec<Integer> = (0..600).map(|_| rand_int(lo2.clone(), hi.clone())).collect();
        (out, draws)
    }, move |cx, st| {
        cx.eval(&[b"small-modulus", &p.to_le_bytes(), &q.to_le_bytes(), &small_span.to_le_bytes()], true);
        let (pp, qq) = (Integer::from(p), Integer::from(q));
        let n = Integer::from(&pp * &qq);
        match st.out {
            Ok((els, draws)) => {
                cx.add("n.random_draws", (els.len() + draws.len()) as u64);
                for (i, x) in els.iter().enumerate() { check_element(cx, &format!("{} (N = {p}*{q})", if i < 300 { "random_qr" } else { "a_i" }), x, &n, Some((&pp, &qq))); }
                let hi = Integer::from(&lo2 + small_span);
                if draws.iter().any(|x| *x < lo2 || *x > hi) { cx.violation("C18", "rand_int/out-of-range".into(), format!("a draw outside [{lo2}, {hi}]")); }
                if small_span <= 10 && (!draws.contains(&lo2) || !draws.contains(&hi)) { cx.violation("C18", "rand_int/endpoint-never-drawn".into(), format!("600 draws from [{lo2}, {hi}] never produced an endpoint (probability below 1e-23 for a uniform draw)")); }
            }
            Err(c) => cx.violation("C18", "random/crash".into(), format!("small modulus {p}*{q}: {c:?}")),
        }
    });
    cx.run();
}

/// smallest prime factor below `bound`, by trial division over a sieve
fn small_factor(n: &Integer, bound: u32) -> Option<u32> {
    let b = bound as usize;
    let mut sieve = vec![true; b];
    let mut p = 2usize;
    while p < b {
        if sieve[p] {
            if n.is_divisible_u(p as u32) { return Some(p as u32); }
            let mut k = p * p;
            while k < b { sieve[k] = false; k += p; }
        }
        p += 1;
    }
    None
}
