//! C14: CL03 blind issuance for every hidden-attribute set, gated by the proof; re-issuance
//! after a revealed attribute changed.
use crate::kit::*;
use crate::sessions::*;
use rug::Integer;
use std::sync::Arc;
use zksim_core::sim::{Crash, Cx, NodeId, StepOpts};

/// the 57 (n, non-empty hidden set) combinations for n = 1..5
pub fn combo(k: u64) -> (usize, Vec<usize>) {
    let mut k = k % 57;
    for n in 1..=5usize {
        let c = (1u64 << n) - 1;
        if k < c { return (n, subset_of(k + 1, n)); }
        k -= c;
    }
    unreachable!()
}

fn gen_msgs(cx: &mut Cx, n: usize, full_size_only: bool) -> Vec<Integer> {
    let seed = cx.run_seed;
    (0..n).map(|i| { let kind = if full_size_only { 0 } else { cx.ch.weighted("attr_kind", &[8, 1, 1, 1]) as u64 }; gen_attr(seed, i as u64, kind).value }).collect()
}

fn deliver_request(cx: &mut Cx, issuer: NodeId, key: Arc<KeyMat>, r: IssueRequest, fault: String, must_accept: bool) {
    let Some(item) = cx.item() else { return };
    cx.log(format!("item {item}: issue request {fault}"));
    let (k2, r2) = (key.clone(), r.clone());
    // verify_proof and blind_sign are observed separately: blind_sign's refusal is a panic
    cx.step(issuer, "verify_proof", StepOpts::default(), move || issuer_verify_only(&r2), move |cx, st| {
        cx.cur_item = Some(item);
        let ok = matches!(st.out, Ok(true));
        let how = match &st.out { Ok(true) => "accept", Ok(false) => "reject", Err(_) => "refused-by-panic" };
        cx.eval(&[b"verify_proof", fault.as_bytes(), r.zk_json.as_bytes(), r.c_value.to_string_radix(16).as_bytes(), format!("{:?}", r.hidden).as_bytes()], true);
        let (fc, fk) = fault_class(&fault);
        cx.count(&format!("fault.{fc}"));
        cx.count(&format!("verdict.{}.verify_proof.{how}", if must_accept { "MustAccept" } else { "MustReject" }));
        cx.cell(format!("verify_proof|{fc}|{how}"));
        if must_accept && !ok { cx.violation("C14", format!("verify_proof/MustAccept-not-accepted/{fk}"), format!("{fault}: n={} hidden={:?} trusted={} -> {how}", r.bases.len(), r.hidden, r.ct_value.is_some())); }
        if !must_accept && ok { cx.violation("C14", format!("verify_proof/MustReject-accepted/{fk}"), format!("{fault}: n={} hidden={:?}", r.bases.len(), r.hidden)); }
        cx.cur_item = None;
        if must_accept { return; }
        // the issuer must not return a signature either
        let (k3, r3) = (k2.clone(), r.clone());
        let fault2 = fault.clone();
        cx.step(issuer, "blind_sign", StepOpts::default(), move || issuer_handle(&k3, &r3).1.is_some(), move |cx, st| {
            cx.cur_item = Some(item);
            let signed = matches!(st.out, Ok(true));
            let (_, fk) = fault_class(&fault2);
            cx.count(&format!("verdict.MustReject.blind_sign.{}", if signed { "signed" } else { "refused" }));
            if signed { cx.violation("C14", format!("blind_sign/MustReject-signed/{fk}"), format!("{fault2}: the issuer returned a signature")); }
            cx.cur_item = None;
        });
    });
}

pub fn run_c14(cx: &mut Cx) {
    let issuer = cx.node("issuer");
    let holder = cx.node("holder");
    let key = pool_key(cx.ch.forced("pool_key", POOL_SIZE, cx.run_index));
    let (n, hidden) = combo(cx.ch.forced("combo", 57, cx.run_index.wrapping_mul(23)));
    if cx.run_index % 8 == 5 { return grind(cx, issuer, holder, key); }
    let trusted = cx.ch.chance("trusted_party", 1, 3);
    let msgs = gen_msgs(cx, n, false);
    // both index lists are sets: they are also given descending / rotated / shuffled (the
    // revealed attributes travel in the order of their index list)
    let (order_h, hidden) = reorder(&mut cx.ch, "hidden_list_order", &hidden);
    let (order_r, revealed_idx) = reorder(&mut cx.ch, "revealed_list_order", &(0..n).filter(|i| !hidden.contains(i)).collect::<Vec<_>>());
    if order_h != "as-given" { cx.count("probe.hidden_positions_listed_in_non_ascending_order"); }
    if order_r != "as-given" { cx.count("probe.revealed_positions_listed_in_non_ascending_order"); }
    let revealed: Vec<Integer> = revealed_idx.iter().map(|&i| msgs[i].clone()).collect();
    cx.log(format!("session: key#{} n={n} hidden={hidden:?} ({order_h}) revealed={revealed_idx:?} ({order_r}) trusted={trusted}", key.idx));
    cx.cell(format!("shape|n{n}|U{}|first_hidden{}|trusted{}|{order_h}|{order_r}", hidden.len(), hidden.iter().min().unwrap(), trusted as u8));
    if !hidden.contains(&0) { cx.count("probe.hidden_set_without_position_0"); }
    if hidden.len() == n { cx.count("probe.all_hidden"); }
    let (k1, m1, h1) = (key.clone(), msgs.clone(), hidden.clone());
    let opts = StepOpts { eintr: if cx.ch.chance("eintr", 1, 6) { 1 } else { 0 }, short_reads: if cx.ch.chance("short", 1, 6) { 1 } else { 0 }, ..Default::default() };
    // the trusted party's key may have fewer bases than the credential has attributes, as long as
    // it covers the hidden positions (CL03CommitmentPublicKey::generate(None, None) has one base)
    let tp: Option<zkryptium::cl03::keys::CL03CommitmentPublicKey> = if trusted && LN == 1024 && cx.ch.chance("trusted_party_on_a_larger_suite", 1, 5) { cx.count("probe.trusted_party_on_a_larger_suite"); Some(odd_size_tp_key(cx.run_seed, 2050, MAX_ATTR)) } else if trusted { let mut t = key.tp_cpk.clone(); if cx.ch.chance("trusted_key_with_few_bases", 1, 3) { t.g_bases.truncate(hidden.iter().max().unwrap() + 1); cx.count("probe.trusted_party_key_with_fewer_bases_than_attributes"); } Some(t) } else { None };
    let tp1 = tp.clone();
    cx.step(holder, "commit+prove", opts, move || holder_commit_and_prove_with(&k1, &m1, &h1, tp1.as_ref()), move |cx, st| {
        let hc = match st.out { Ok(h) => h, Err(c) => { cx.violation("C14", "generate_proof/failed".into(), format!("n={n} hidden={hidden:?}: {c:?}")); return; } };
        // (the issuer's base list may be longer than this credential's attribute vector)
        let longer_bases = n < MAX_ATTR && cx.ch.chance("issuer_bases_longer_than_the_credential", 1, 3);
        if longer_bases { cx.count("probe.issuer_bases_longer_than_the_credential"); }
        let req = IssueRequest { pk: key.pk.clone(), bases: if longer_bases { key.bases.0.clone() } else { key.bases.0[..n].to_vec() }, tp_cpk: tp.clone(), c_value: hc.c_value.clone(), ct_value: hc.ct_value.clone(), zk_json: hc.zk_json.clone(), revealed: revealed.clone(), revealed_idx: revealed_idx.clone(), hidden: hidden.clone() };
        // honest request: proof verifies, the issuer signs, the unblinded signature verifies
        deliver_request(cx, issuer, key.clone(), req.clone(), "none".into(), true);
        let (k2, r2) = (key.clone(), req.clone());
        let (key3, hc3, msgs3, req3) = (key.clone(), hc.clone(), msgs.clone(), req.clone());
        cx.step(issuer, "blind_sign", StepOpts::default(), move || issuer_handle(&k2, &r2), move |cx, st| {
            let bs_json = match st.out {
                Ok((_, Some(j))) => j,
                Ok((_, None)) => { cx.violation("C14", "blind_sign/honest-request-refused".into(), format!("n={n} hidden={:?}", req3.hidden)); return; }
                Err(Crash::Panic(m)) => { cx.violation("C14", "blind_sign/honest-request-refused".into(), format!("n={n} hidden={:?} trusted={trusted}: {m}", req3.hidden)); return; }
                Err(c) => { cx.violation("C14", "blind_sign/crash".into(), format!("{c:?}")); return; }
            };
            // a holder crash between request and response: only what the wallet persisted survives
            // (the commitment with its opening, as the library serializes it)
            let from_store = cx.ch.chance("restart_holder_before_unblind", 1, 3);
            if from_store { cx.restart(holder); cx.count("fault.restart_reload_commitment_from_store"); }
            let (k4, hc4, m4, bs4) = (key3.clone(), hc3.clone(), msgs3.clone(), bs_json.clone());
            let (key5, hc5, msgs5, req5, bs5) = (key3.clone(), hc3.clone(), msgs3.clone(), req3.clone(), bs_json.clone());
            cx.step(holder, "unblind+verify", StepOpts::default(), move || holder_unblind_via(&k4, &bs4, &hc4, &m4, from_store), move |cx, st| {
                cx.eval(&[b"unblind", bs5.as_bytes()], true);
                let sig = match st.out {
                    Ok(Ok((true, s))) => { cx.count("verdict.MustAccept.unblinded.accept"); s }
                    other => { cx.violation("C14", "unblinded-signature-does-not-verify".into(), format!("n={n} hidden={:?} trusted={trusted}: {:?}", req5.hidden, other.map(|r| r.map(|x| x.0)))); return; }
                };
                // re-issuance after a revealed attribute changed
                if !req5.revealed_idx.is_empty() {
                    let pos = cx.ch.choose("changed_revealed", req5.revealed_idx.len() as u64) as usize;
                    let mut new_rev = req5.revealed.clone();
                    new_rev[pos] = gen_attr(cx.run_seed, 777, 0).value;
                    let mut new_full = msgs5.clone();
                    new_full[req5.revealed_idx[pos]] = new_rev[pos].clone();
                    let (k6, bs6, cv6, ri6, nr6) = (key5.clone(), bs5.clone(), hc5.c_value.clone(), req5.revealed_idx.clone(), new_rev.clone());
                    let (key7, hc7, nf7, old7, sig7) = (key5.clone(), hc5.clone(), new_full.clone(), msgs5.clone(), sig.clone());
                    cx.step(issuer, "update_signature", StepOpts::default(), move || issuer_update(&k6, &bs6, &cv6, n, &nr6, &ri6), move |cx, st| {
                        let up = match st.out { Ok(Ok(j)) => j, other => { cx.violation("C14", "update_signature/failed".into(), format!("{other:?}")); return; } };
                        let (k8, hc8, nf8, old8, up8) = (key7.clone(), hc7.clone(), nf7.clone(), old7.clone(), up.clone());
                        cx.step(holder, "unblind-updated", StepOpts::default(), move || {
                            let a = holder_unblind(&k8, &up8, &hc8, &nf8)?;
                            let b = holder_unblind(&k8, &up8, &hc8, &old8)?;
                            // stale: the pre-update signature against the new vector
                            let stale = crate::scen_sig::sig_from_parts(&sig7.0, &sig7.1, &sig7.2).unwrap().verify_multiattr(&k8.pk, &zkryptium::cl03::bases::Bases(k8.bases.0[..nf8.len()].to_vec()), &msgs_of(&nf8));
                            Ok::<_, String>((a.0, b.0, stale, a.1 .0 == sig7.0))
                        }, move |cx, st| {
                            cx.eval(&[b"update", up.as_bytes()], true);
                            cx.count("fault.replay_stale");
                            match st.out {
                                Ok(Ok((true, false, false, true))) => cx.count("verdict.update.ok"),
                                Ok(Ok((new_ok, old_ok, stale_ok, same_e))) => {
                                    if !new_ok { cx.violation("C14", "update_signature/updated-vector-rejected".into(), format!("n={n}")); }
                                    if old_ok { cx.violation("C14", "update_signature/old-vector-still-accepted".into(), format!("n={n}")); }
                                    if stale_ok { cx.violation("C14", "update_signature/stale-signature-accepted-for-new-vector".into(), format!("n={n}")); }
                                    if !same_e { cx.violation("C14", "update_signature/exponent-changed".into(), format!("n={n}")); }
                                }
                                other => cx.violation("C14", "update_signature/unblind-failed".into(), format!("{other:?}")),
                            }
                        });
                    });
                }
            });
        });
        mismatches(cx, issuer, holder, key.clone(), req, msgs.clone(), trusted);
    });
    cx.run();
}

/// Every eighth run: issuance proofs of a one-attribute credential (with a trusted-party
/// commitment) are generated until one chosen Fiat-Shamir value of the frame (a different one per
/// run) has a leading zero octet; the issuer must accept that honest request like any other.
fn grind(cx: &mut Cx, issuer: NodeId, holder: NodeId, key: Arc<KeyMat>) {
    let target = cx.run_index / 8;
    let cap = if LN > 1024 { 40 } else if cx.thorough { 2500 } else { 600 }; // (seconds per generation at 2048 bits)
    let msgs = vec![gen_attr(cx.run_seed, 0, 0).value];
    let (k1, m1) = (key.clone(), msgs.clone());
    cx.step(holder, "grind-commit+prove", StepOpts::default(), move || {
        let mut last: Option<HolderCommit> = None;
        let (_, tries, path, hit) = grind_short_hash(|| { let hc = holder_commit_and_prove(&k1, &m1, &[0], true); let j = hc.zk_json.clone(); last = Some(hc); j }, target, cap);
        (last, tries, path, hit)
    }, move |cx, st| {
        let Ok((Some(hc), tries, path, hit)) = st.out else { cx.violation("C14", "generate_proof/failed".into(), "while grinding".into()); return; };
        cx.add("n.grinding_generations", tries as u64);
        if !hit { cx.count("probe.grinding_gave_up"); cx.log(format!("no short {path} in {tries} generations")); return; }
        cx.count("probe.honest_proof_with_leading_zero_octet_in_a_challenge");
        cx.log(format!("{path} has a leading zero octet after {tries} generations"));
        let req = IssueRequest { pk: key.pk.clone(), bases: key.bases.0[..1].to_vec(), tp_cpk: Some(key.tp_cpk.clone()), c_value: hc.c_value.clone(), ct_value: hc.ct_value.clone(), zk_json: hc.zk_json.clone(), revealed: vec![], revealed_idx: vec![], hidden: vec![0] };
        deliver_request(cx, issuer, key.clone(), req, format!("none:short_hash_value:{}", generic_path(&path)), true);
    });
    cx.run();
}

/// requests that do not match: each must make verify_proof false and blind_sign refuse
fn mismatches(cx: &mut Cx, issuer: NodeId, holder: NodeId, key: Arc<KeyMat>, req: IssueRequest, msgs: Vec<Integer>, trusted: bool) {
    let n = msgs.len();
    // commitment to other attributes / trusted commitment of another session: need a second commit
    let mut other = msgs.clone();
    other[req.hidden[0]] += 1;
    let (k1, h1) = (key.clone(), req.hidden.clone());
    let (key2, req2) = (key.clone(), req.clone());
    cx.step(holder, "commit-other", StepOpts::default(), move || holder_commit_and_prove(&k1, &other, &h1, trusted), move |cx, st| {
        let Ok(hc2) = st.out else { return };
        { let mut r = req2.clone(); r.c_value = hc2.c_value.clone(); deliver_request(cx, issuer, key2.clone(), r, "commitment_to_other_attributes".into(), false); }
        { let mut r = req2.clone(); r.zk_json = hc2.zk_json.clone(); deliver_request(cx, issuer, key2.clone(), r, "proof_for_other_attributes".into(), false); }
        if trusted { let mut r = req2.clone(); r.ct_value = hc2.ct_value.clone(); deliver_request(cx, issuer, key2.clone(), r, "trusted_commitment_of_another_session".into(), false); }
        // Mallory: sub-proofs of the OTHER honest proof spliced into this one (a range proof that
        // is about another commitment; a per-attribute proof of another attribute)
        let (va, vb) = (parse(&req2.zk_json), parse(&hc2.zk_json));
        for (name, path) in [("range_proofs_mi[0]", "/CL03/range_proofs_mi/0"), ("range_proof_r", "/CL03/range_proof_r"), ("proofs_commited_mi[0]", "/CL03/proofs_commited_mi/0"), ("proof_r", "/CL03/proof_r"), ("proof_commited_msgs", "/CL03/proof_commited_msgs")] {
            let mut v = va.clone();
            if let (Some(slot), Some(src)) = (v.pointer_mut(path), vb.pointer(path)) { *slot = src.clone(); } else { continue; }
            let mut r = req2.clone();
            r.zk_json = v.to_string();
            deliver_request(cx, issuer, key2.clone(), r, format!("forged_subproof_splice:{name}"), false);
        }
        // ... and consistent PAIRS (proof of knowledge + range proof about the same foreign commitment)
        for (name, paths) in [("proofs_commited_mi[0]+range_proofs_mi[0]", vec!["/CL03/proofs_commited_mi/0", "/CL03/range_proofs_mi/0"]), ("proof_r+range_proof_r", vec!["/CL03/proof_r", "/CL03/range_proof_r"])] {
            let mut v = va.clone();
            let mut ok = true;
            for path in &paths { if let (Some(slot), Some(src)) = (v.pointer_mut(path), vb.pointer(path)) { *slot = src.clone(); } else { ok = false; } }
            if !ok { continue; }
            let mut r = req2.clone();
            r.zk_json = v.to_string();
            deliver_request(cx, issuer, key2.clone(), r, format!("forged_subproof_pair_splice:{name}"), false);
        }
    });
    // other hidden-position sets
    if n > 1 {
        let mut variants: Vec<(String, Vec<usize>)> = Vec::new();
        let mut own = req.hidden.clone(); own.sort();
        if let Some(extra) = (0..n).find(|i| !req.hidden.contains(i)) { let mut h = req.hidden.clone(); h.push(extra); h.sort(); variants.push(("hidden_set:+1".into(), h)); }
        if req.hidden.len() > 1 { let mut h = req.hidden.clone(); h.pop(); variants.push(("hidden_set:-1".into(), h)); }
        { let h: Vec<usize> = req.hidden.iter().map(|i| (i + 1) % n).collect(); let mut hs = h.clone(); hs.sort(); if hs != own { variants.push(("hidden_set:shifted".into(), hs)); } }
        for (name, h) in variants { let mut r = req.clone(); r.hidden = h; deliver_request(cx, issuer, key.clone(), r, name, false); }
    }
    // other bases / other key
    { let mut r = req.clone(); r.bases = key.bases2.0[..n].to_vec(); deliver_request(cx, issuer, key.clone(), r, "misroute_bases".into(), false); }
    if let Some(other) = other_pool_key(key.idx) { let mut r = req.clone(); r.pk = other.pk.clone(); deliver_request(cx, issuer, key.clone(), r, "misroute_key".into(), false); }
    { let mut r = req.clone(); r.c_value += 1; deliver_request(cx, issuer, key.clone(), r, "commitment_value:+1".into(), false); }
    // the same residues, other integers: C + N, C_trusted + N_trusted
    { let mut r = req.clone(); r.c_value += &key.pk.N; deliver_request(cx, issuer, key.clone(), r, "commitment_value:+N".into(), false); }
    if let (Some(ct), Some(tp)) = (&req.ct_value, &req.tp_cpk) { let mut r = req.clone(); r.ct_value = Some(Integer::from(ct + &tp.N)); deliver_request(cx, issuer, key.clone(), r, "trusted_commitment_value:+N".into(), false); }
    if trusted {
        // the link proof between C and the trusted commitment removed from the frame, while the
        // issuer still holds the trusted commitment
        let mut v = parse(&req.zk_json);
        v["CL03"]["proof_C_Ctrusted"] = serde_json::Value::Null;
        let mut r = req.clone(); r.zk_json = v.to_string();
        deliver_request(cx, issuer, key.clone(), r, "trusted_link_proof_removed".into(), false);
        // and a foreign trusted commitment value the proof says nothing about
        let mut r = req.clone(); r.ct_value = r.ct_value.map(|x| x + 1u32);
        deliver_request(cx, issuer, key.clone(), r, "trusted_commitment_value:+1".into(), false);
    }
    // Mallory: SIMULATED transcripts of the multi-secret proof of knowledge (responses chosen
    // first, the first message t solved for afterwards) for a commitment C' whose opening nobody
    // knows.  A simulation verifies exactly when the challenge does not bind what was solved for
    // last (weak Fiat-Shamir); every other part of the frame is the honest one.  Hypotheses: the
    // challenge ignores t; the challenge ignores t and C.
    if !trusted {
        let nmod = &key.pk.N;
        let seed = cx.run_seed;
        let draw = |tag: u64, bits: u32| { let mut x = Integer::from_digits(&zksim_core::prng::bytes_for(seed, b"simulated", tag, (bits as usize + 7) / 8), rug::integer::Order::MsfBe); x.keep_bits_mut(bits); x };
        let x = draw(0, LN - 2);
        let c_forged = Integer::from(&x * &x) % nmod;
        for (hyp, with_c) in [("challenge_without_t", true), ("challenge_without_t_and_C", false)] {
            let s1: Vec<Integer> = (0..req.hidden.len()).map(|k| draw(10 + k as u64, LM + 256)).collect();
            let s2 = draw(5, LN + 256);
            let mut hashed = String::new();
            let mut lhs = Integer::from(1);
            for (k, &i) in req.hidden.iter().enumerate() { hashed += &req.bases[i].to_string(); lhs = lhs * pow(&req.bases[i], &s1[k], nmod) % nmod; }
            lhs = lhs * pow(&key.pk.b, &s2, nmod) % nmod;
            hashed += &key.pk.b.to_string();
            if with_c { hashed += &c_forged.to_string(); }
            let c = sha256_int(&hashed);
            let Ok(cinv) = pow(&c_forged, &c, nmod).invert(nmod) else { continue };
            let t = lhs * cinv % nmod;
            let mut v = parse(&req.zk_json);
            v["CL03"]["proof_commited_msgs"] = serde_json::json!({ "t": int_json(&t), "s1": s1.iter().map(int_json).collect::<Vec<_>>(), "s2": int_json(&s2) });
            let mut r = req.clone();
            r.zk_json = v.to_string();
            r.c_value = c_forged.clone();
            deliver_request(cx, issuer, key.clone(), r, format!("forged_simulated_transcript:{hyp}"), false);
        }
    }
    // Mallory: DIGIT SHIFTING between adjacent parameters of the statement.  The library hashes
    // decimal strings concatenated without separators; anything keyed or bound by such a string
    // (a cache of accepted statements, a transcript hash) cannot tell (C, T) from (C minus its
    // last digits, those digits in front of T), nor (last base a, U = [1, 2]) from (a*10 + 1, [2]).
    // Replayed right after the honest request was accepted by the same issuer process.
    {
        if let Some(ct) = &req.ct_value {
            for k in [1usize, 3] {
                let cs = req.c_value.to_string();
                if cs.len() <= k + 1 { continue; }
                let (head, tail) = cs.split_at(cs.len() - k);
                if tail.starts_with('0') { continue; }
                let mut r = req.clone();
                r.c_value = head.parse().unwrap();
                r.ct_value = Some(format!("{tail}{ct}").parse().unwrap());
                deliver_request(cx, issuer, key.clone(), r, format!("forged_digit_shift:C|C_trusted:{k}"), false);
            }
        }
        if req.hidden.len() >= 2 && req.hidden[0] != 0 {
            let mut r = req.clone();
            let h0 = r.hidden.remove(0);
            let last = r.bases.len() - 1;
            r.bases[last] = format!("{}{}", r.bases[last], h0).parse().unwrap();
            if !r.hidden.contains(&last) || true { deliver_request(cx, issuer, key.clone(), r, "forged_digit_shift:last_base|U".into(), false); }
        }
        // the same between the two moduli-free neighbours every request has: (C, first revealed attribute)
        {
            let cs = req.c_value.to_string();
            let (head, tail) = cs.split_at(cs.len() - 1);
            if !tail.starts_with('0') && !req.revealed.is_empty() {
                let mut r = req.clone();
                r.c_value = head.parse().unwrap();
                r.revealed[0] = format!("{tail}{}", r.revealed[0]).parse().unwrap();
                deliver_request(cx, issuer, key.clone(), r, "forged_digit_shift:C|revealed".into(), false);
            }
        }
    }
    // the per-attribute sub-proof arrays shortened (last entry removed / emptied)
    {
        let v0 = parse(&req.zk_json);
        for (name, path) in [("proofs_commited_mi", "/CL03/proofs_commited_mi"), ("range_proofs_mi", "/CL03/range_proofs_mi")] {
            for how in ["last", "all"] {
                let mut v = v0.clone();
                if let Some(serde_json::Value::Array(a)) = v.pointer_mut(path) { if a.is_empty() { continue; } if how == "last" { a.pop(); } else { a.clear(); } } else { continue; }
                let mut r = req.clone(); r.zk_json = v.to_string();
                deliver_request(cx, issuer, key.clone(), r, format!("forged_subproof_array_shortened:{name}:{how}"), false);
            }
        }
        // ... and LENGTHENED: a copy of the last entry appended (surplus entries nobody reads)
        for (name, path) in [("proofs_commited_mi", "/CL03/proofs_commited_mi"), ("range_proofs_mi", "/CL03/range_proofs_mi"), ("proof_C_Ctrusted.d", "/CL03/proof_C_Ctrusted/d")] {
            let mut v = v0.clone();
            if let Some(serde_json::Value::Array(a)) = v.pointer_mut(path) { if let Some(last) = a.last().cloned() { a.push(last); } else { continue; } } else { continue; }
            let mut r = req.clone(); r.zk_json = v.to_string();
            deliver_request(cx, issuer, key.clone(), r, format!("forged_subproof_array_lengthened:{name}"), false);
        }
        // both arrays shortened consistently
        let mut v = v0.clone();
        let mut ok = true;
        for path in ["/CL03/proofs_commited_mi", "/CL03/range_proofs_mi"] { if let Some(serde_json::Value::Array(a)) = v.pointer_mut(path) { if a.pop().is_none() { ok = false; } } }
        if ok { let mut r = req.clone(); r.zk_json = v.to_string(); deliver_request(cx, issuer, key.clone(), r, "forged_subproof_array_shortened:both:last".into(), false); }
    }
    // field-wise perturbation of the proof JSON (a slice of the leaves per run; the whole
    // proof over consecutive runs)
    let v = parse(&req.zk_json);
    let ls = leaves(&v);
    let per = if cx.thorough { 24 } else { 8 };
    let nsl = (ls.len() as u64 + per - 1) / per;
    let slice = cx.ch.forced("leaf_slice", nsl.max(1), cx.run_index);
    cx.add("n.proof_leaves", ls.len() as u64);
    for k in (slice * per) as usize..(((slice + 1) * per) as usize).min(ls.len()) {
        let ps = perturbations_mod(&ls, k, &key.pk.N);
        let pick = cx.ch.choose("perturbation", ps.len() as u64) as usize;
        let (pname, edits) = &ps[pick];
        let mut v2 = v.clone();
        for (p, x) in edits { set_leaf(&mut v2, p, x); }
        let mut r = req.clone();
        r.zk_json = v2.to_string();
        deliver_request(cx, issuer, key.clone(), r, format!("leaf:{}:{pname}", generic_path(&ls[k].0)), false);
    }
}
