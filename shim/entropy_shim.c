// Entropy seam for zksim (DESIGN.md §2.2).
//
// LD_PRELOAD-ed into the simulator process.  It interposes the two ways user
// space asks the kernel for entropy -- getrandom(3) and syscall(SYS_getrandom)
// -- and serves them from a deterministic per-thread stream once a thread has
// bound one with zkent_bind().  Threads that never bind keep real entropy.
// Everything above the system call (getrandom crate, rand's ReseedingRng,
// zkryptium's own randomness helpers) is the shipped code.
//
// Legal kernel behaviours are injected here on request: EINTR (k times, then
// success) and short reads.  Nothing else.
#define _GNU_SOURCE
#include <dlfcn.h>
#include <errno.h>
#include <stdarg.h>
#include <stdint.h>
#include <string.h>
#include <sys/syscall.h>
#include <sys/types.h>
#include <unistd.h>

static __thread int bound = 0;
static __thread uint64_t st[4];
static __thread int eintr_left = 0;      // next k non-empty calls fail with EINTR
static __thread int short_left = 0;      // next k non-empty calls return fewer bytes
static __thread uint64_t n_calls = 0, n_bytes = 0, n_eintr = 0, n_short = 0;

static inline uint64_t rotl(uint64_t x, int k) { return (x << k) | (x >> (64 - k)); }
static uint64_t next(void) {
  uint64_t r = rotl(st[1] * 5, 7) * 9, t = st[1] << 17;
  st[2] ^= st[0]; st[3] ^= st[1]; st[1] ^= st[2]; st[0] ^= st[3];
  st[2] ^= t; st[3] = rotl(st[3], 45);
  return r;
}

int zkent_handshake(void) { return 0x5a4b; }

void zkent_bind(const uint64_t seed[4]) {
  memcpy(st, seed, sizeof st);
  if (!(st[0] | st[1] | st[2] | st[3])) st[0] = 1;
  bound = 1; eintr_left = 0; short_left = 0;
  n_calls = n_bytes = n_eintr = n_short = 0;
}
void zkent_unbind(void) { bound = 0; }
void zkent_fault(int eintr, int shortreads) { eintr_left = eintr; short_left = shortreads; }
// which: 0 calls, 1 bytes, 2 eintr injected, 3 short reads injected
uint64_t zkent_stat(int which) {
  switch (which) { case 0: return n_calls; case 1: return n_bytes; case 2: return n_eintr; default: return n_short; }
}

static ssize_t serve(void *buf, size_t len) {
  if (len == 0) return 0;          // availability probe
  n_calls++;
  if (eintr_left > 0) { eintr_left--; n_eintr++; errno = EINTR; return -1; }
  if (short_left > 0 && len > 1) { short_left--; n_short++; len = 1 + (size_t)(next() % (len - 1)); }
  unsigned char *p = buf; size_t i = 0;
  while (i < len) {
    uint64_t r = next();
    size_t k = len - i < 8 ? len - i : 8;
    memcpy(p + i, &r, k); i += k;
  }
  n_bytes += len;
  return (ssize_t)len;
}

typedef long (*syscall_fn)(long, long, long, long, long, long, long);
static syscall_fn real_syscall(void) {
  static syscall_fn f = 0;
  if (!f) f = (syscall_fn)dlsym(RTLD_NEXT, "syscall");
  return f;
}

long syscall(long number, ...) {
  va_list ap; va_start(ap, number);
  long a = va_arg(ap, long), b = va_arg(ap, long), c = va_arg(ap, long),
       d = va_arg(ap, long), e = va_arg(ap, long), f = va_arg(ap, long);
  va_end(ap);
  if (number == SYS_getrandom && bound) return serve((void *)a, (size_t)b);
  return real_syscall()(number, a, b, c, d, e, f);
}

ssize_t getrandom(void *buf, size_t len, unsigned int flags) {
  if (bound) return serve(buf, len);
  return real_syscall()(SYS_getrandom, (long)buf, (long)len, (long)flags, 0, 0, 0);
}
